/-
Executable model of the converters of `utype/utils/transform.py` (`TypeTransformer`), branch for branch,
including the branches that are wrong.  Shared by C12 (this file's owner), C01 and C04.

  * `_attempt_from`            transform.py:144-162      `attemptFrom`
  * `_from_byte_like`          :164-169                  `fromByteLike`
  * `_attempt_from_number`     :171-184                  `attemptFromNumber`
  * `to_null … to_enum`        :198-692                  `toNull … toEnum`
  * `handle_unresolved`        :715-723                  `handleUnresolved`
  * `apply` / `__call__`       :725-748                  `apply` / `transform`

Values (`V`) carry their class (a builtin `Base` and a user-subclass tag); an `Outcome` keeps apart
`ok`, `perr` (a TypeError/ValueError raised by the converter — callers such as `Rule.parse` wrap these into
`ParseError`), `escape` (any other exception class), `diverge` (a loop that never ends: the timestamp
loops on ±inf) and `unmodelled` (the model refuses to guess: explicit fragment boundary).

CPython builtins whose internals are not utype's business are the fields of `Prims`; every function
takes `P : Prims`, every theorem is `∀ P`.  Laws of builtins a theorem needs are explicit hypotheses
(`PrimLaws`), audited against the running interpreter by the harness.
Core Lean only.  Tables (`NULL_VALUES …`) come from the T1 extractor (`Utv.Gen.Tables`).
-/
import Utv.Py.Basic
import Utv.Gen.Tables

namespace Utv.Conv
open Utv.Py (FloatV DecV NumV Q)

/-! ## classes, values, outcomes -/

/-- builtin / standard-library classes that have a registered converter -/
inductive Base where
  | noneType | bool | int | float | complex | decimal | str | bytes | bytearray | memoryview
  | list | tuple | set | frozenset | deque | dict
  | date | datetime | time | timedelta | uuid
  deriving DecidableEq, Repr, Inhabited

inductive BytesK where
  | bytes | bytearray | memoryview
  deriving DecidableEq, Repr, Inhabited

inductive SeqK where
  | list | tuple | set | frozenset | deque
  deriving DecidableEq, Repr, Inhabited

def BytesK.base : BytesK → Base
  | .bytes => .bytes | .bytearray => .bytearray | .memoryview => .memoryview

def SeqK.base : SeqK → Base
  | .list => .list | .tuple => .tuple | .set => .set | .frozenset => .frozenset | .deque => .deque

def Base.bytesK? : Base → Option BytesK
  | .bytes => some .bytes | .bytearray => some .bytearray | .memoryview => some .memoryview | _ => none

def Base.seqK? : Base → Option SeqK
  | .list => some .list | .tuple => some .tuple | .set => some .set | .frozenset => some .frozenset
  | .deque => some .deque | _ => none

/-- `set` / `frozenset` (hash iteration order, de-duplication) -/
def SeqK.isSet : SeqK → Bool
  | .set => true | .frozenset => true | _ => false

/-- abstract collection classes handled by `to_iter_types` / `to_mapping` -/
inductive Abc where
  | sequence | iterable | iterator | mapping
  deriving DecidableEq, Repr

/-- a target class `t`.  `cls b 0` is the builtin itself, `cls b (k+1)` the user subclass `#k` of it
(`class SubInt(int)`), `enum k` an `Enum` subclass described by the environment, `abc` an abstract
collection class, `obj k` a class nothing is registered for. -/
inductive Target where
  | cls (b : Base) (sub : Nat)
  | enum (k : Nat)
  | abc (a : Abc)
  | obj (k : Nat)
  deriving DecidableEq, Repr, Inhabited

structure DateV where
  y : Nat
  m : Nat
  d : Nat
  deriving DecidableEq, Repr, Inhabited

/-- time of day; `tz` = utcoffset in seconds of an aware value -/
structure TimeV where
  hh : Nat
  mi : Nat
  ss : Nat
  us : Nat
  tz : Option Int
  deriving DecidableEq, Repr, Inhabited

/-- Python values.  `c` is the user-subclass tag of the value's class (0 = the builtin itself). -/
inductive V where
  | none
  | bool (b : Bool)
  | int (c : Nat) (i : Int)
  | float (c : Nat) (f : FloatV)
  | complex (re im : FloatV)
  | dec (c : Nat) (d : DecV)
  | str (c : Nat) (s : String)
  | bytes (k : BytesK) (c : Nat) (bs : List UInt8)
  | seq (k : SeqK) (c : Nat) (xs : List V)
  | dict (c : Nat) (kvs : List (V × V))
  | date (c : Nat) (d : DateV)
  | datetime (c : Nat) (d : DateV) (t : TimeV)
  | time (c : Nat) (t : TimeV)
  | delta (c : Nat) (us : Int)
  | uuid (c : Nat) (n : Nat)
  | enum (k : Nat) (i : Nat)                          -- member `i` of enum class `k`
  | obj (k : Nat)                                     -- an object the model knows nothing about
  deriving Repr, Inhabited

/-- exception classes that are `TypeError` / `ValueError` instances -/
inductive PErr where
  | typeError
  | valueError
  | jsonDecode            -- json.JSONDecodeError ⊂ ValueError
  deriving DecidableEq, Repr

/-- exception classes that are neither -/
inductive Esc where
  | invalidOperation      -- decimal.InvalidOperation ⊂ ArithmeticError
  | overflow              -- OverflowError
  | attribute             -- AttributeError
  | syntax                -- SyntaxError (ast.literal_eval)
  | other (name : String)
  deriving DecidableEq, Repr

inductive Outcome (α : Type) where
  | ok (a : α)
  | perr (e : PErr)
  | escape (e : Esc)
  | diverge
  | unmodelled (why : String)
  deriving Repr

namespace Outcome
@[inline] def bind {α β : Type} (x : Outcome α) (f : α → Outcome β) : Outcome β :=
  match x with
  | .ok a => f a
  | .perr e => .perr e
  | .escape e => .escape e
  | .diverge => .diverge
  | .unmodelled w => .unmodelled w

instance : Monad Outcome where
  pure := .ok
  bind := Outcome.bind

@[simp] theorem ok_bind {α β} (a : α) (f : α → Outcome β) : (Outcome.ok a >>= f) = f a := rfl
@[simp] theorem perr_bind {α β} (e) (f : α → Outcome β) : (Outcome.perr e >>= f) = .perr e := rfl
@[simp] theorem escape_bind {α β} (e) (f : α → Outcome β) : (Outcome.escape e >>= f) = .escape e := rfl
@[simp] theorem diverge_bind {α β} (f : α → Outcome β) : (Outcome.diverge >>= f) = .diverge := rfl
@[simp] theorem unmodelled_bind {α β} (w) (f : α → Outcome β) : (Outcome.unmodelled w >>= f) = .unmodelled w := rfl
@[simp] theorem pure_eq {α} (a : α) : (pure a : Outcome α) = .ok a := rfl

theorem bind_eq_ok {α β} {x : Outcome α} {f : α → Outcome β} {b : β} :
    (x >>= f) = .ok b ↔ ∃ a, x = .ok a ∧ f a = .ok b := by
  cases x <;> simp

def isOk {α} : Outcome α → Bool
  | .ok _ => true
  | _ => false

/-- `try: x  except (TypeError, ValueError): h` -/
@[inline] def orElseTV {α} (x : Outcome α) (h : Outcome α) : Outcome α :=
  match x with
  | .perr _ => h
  | o => o

/-- `try: x  except ValueError: h` (JSONDecodeError and UnicodeDecodeError are ValueErrors) -/
@[inline] def orElseV {α} (x : Outcome α) (h : Outcome α) : Outcome α :=
  match x with
  | .perr .valueError => h
  | .perr .jsonDecode => h
  | o => o
end Outcome

open Outcome

/-- the two conversion preferences (`Options.no_explicit_cast`, `Options.no_data_loss`) -/
structure Flags where
  nec : Bool
  ndl : Bool
  deriving DecidableEq, Repr

def Flags.lenient : Flags := ⟨false, false⟩

inductive Unresolved where
  | throw | init | ignore
  deriving DecidableEq, Repr

/-- an `Enum` subclass: optional mixed-in member type (`class E(int, Enum)`) and the members in definition
order (name, value); aliases are simply later entries with an equal value -/
structure EnumDecl where
  memberType : Option Base
  members : List (String × V)

structure Env where
  enums : List EnumDecl

def Env.enum? (E : Env) (k : Nat) : Option EnumDecl := E.enums[k]?

/-! ## CPython builtins that stay abstract -/

structure Prims where
  /-- `bytes.decode(errors = 'strict' if strict else 'ignore')` -/
  decode : Bool → List UInt8 → Outcome String
  /-- `str(x)` for anything that is not a str / int / bool / None -/
  strOf : V → Outcome String
  /-- `float(s)` -/
  floatOfStr : String → Outcome FloatV
  /-- `float(i)` for a non-zero int (OverflowError escapes) -/
  floatOfInt : Int → Outcome FloatV
  /-- `float(d)` for a Decimal with non-zero coefficient or a special value -/
  floatOfDec : DecV → Outcome FloatV
  /-- `Decimal(s)` for a non-empty string (InvalidOperation escapes) -/
  decOfStr : String → Outcome DecV
  /-- `Decimal(str(f))` for a non-zero float -/
  decOfFloatRepr : FloatV → Outcome DecV
  /-- `complex(x)` / `complex(a, b)` -/
  complexOf : V → Outcome V
  complexOf2 : V → V → Outcome V
  /-- `datetime.timestamp()` -/
  timestampOf : V → Outcome FloatV
  /-- `timedelta.total_seconds()` of a duration given in microseconds -/
  totalSeconds : Int → Outcome FloatV
  /-- `x / 1000` on an int, float or Decimal -/
  div1000 : V → Outcome V
  /-- `datetime.utcfromtimestamp(x).replace(tzinfo=timezone.utc)` -/
  utcFromTs : V → Outcome V
  /-- `datetime.strptime(s, fmt)` -/
  strptime : String → String → Outcome V
  /-- `time.fromisoformat(s)` -/
  timeFromIso : String → Outcome V
  /-- `UUID(s).int` -/
  uuidOfStr : String → Outcome Nat
  /-- `json.loads(s, strict=strict)` -/
  jsonLoads : Bool → String → Outcome V
  /-- `ast.literal_eval(s)` -/
  literalEval : String → Outcome V
  /-- `urllib.parse.parse_qs(s)` as a dict of str → list of str -/
  parseQs : String → Outcome V
  /-- `DURATION_REGS[i].match(s)`: `none` = no match, else the `groupdict()` -/
  durationMatch : Nat → String → Outcome (Option (List (String × Option String)))
  /-- `sign * timedelta(**kw)` -/
  timedeltaKw : Int → List (String × FloatV) → Outcome V
  /-- `timedelta(seconds=x)` -/
  timedeltaSec : FloatV → Outcome V
  /-- `t(data)` for a class nothing is registered for (`unresolved_types='init'`) -/
  initObj : Nat → V → Outcome V

/-- Laws of CPython builtins the C12 theorems rely on (audited against the interpreter on every run). -/
structure PrimLaws (P : Prims) : Prop where
  /-- a strict decode that succeeds agrees with the `errors='ignore'` decode -/
  decode_strict : ∀ bs s, P.decode true bs = .ok s → P.decode false bs = .ok s
  /-- whatever `json.loads(strict=True)` accepts, `strict=False` accepts with the same result; what it
  rejects, `strict=False` rejects too or accepts (control characters inside strings) -/
  json_strict : ∀ s, P.jsonLoads true s = P.jsonLoads false s ∨
      (P.jsonLoads true s = .perr .jsonDecode ∧ ∃ j, P.jsonLoads false s = .ok j)

/-! ## strings (Python semantics on `List Char`) -/

/-- `str.isspace` code points (what `str.strip()` removes) -/
def isPySpace (c : Char) : Bool :=
  let n := c.toNat
  (9 ≤ n && n ≤ 13) || (28 ≤ n && n ≤ 32) || n == 133 || n == 160 || n == 5760 ||
  (8192 ≤ n && n ≤ 8202) || n == 8232 || n == 8233 || n == 8239 || n == 8287 || n == 12288

def lstripL (l : List Char) : List Char := l.dropWhile isPySpace
def stripL (l : List Char) : List Char := (lstripL (lstripL l).reverse).reverse
def pyStrip (s : String) : String := String.ofList (stripL s.toList)

/-- `s.lower()` restricted to what matters for membership in the ASCII word tables
(no non-ASCII character lower-cases to a letter of those words) -/
def pyLower (s : String) : String := String.ofList (s.toList.map Char.toLower)

def containsSub (pat : List Char) : List Char → Bool
  | [] => pat.isEmpty
  | c :: cs => pat.isPrefixOf (c :: cs) || containsSub pat cs
def strContains (pat s : String) : Bool := containsSub pat.toList s.toList
def startsWith (pat s : String) : Bool := pat.toList.isPrefixOf s.toList
def endsWith (pat s : String) : Bool := pat.toList.isSuffixOf s.toList

/-- `l.replace(pat, '')` for a non-empty `pat` -/
def removeAllAux (pat : List Char) : Nat → List Char → List Char
  | 0, l => l
  | _, [] => []
  | n + 1, c :: cs =>
    if pat.isPrefixOf (c :: cs) then removeAllAux pat n ((c :: cs).drop pat.length)
    else c :: removeAllAux pat n cs
def removeAll (pat s : String) : String := String.ofList (removeAllAux pat.toList (s.length + 1) s.toList)

/-- `l.rstrip('Z')` -/
def rstripChar (ch : Char) (l : List Char) : List Char := (l.reverse.dropWhile (· == ch)).reverse

/-- `l.split(sep)` for a one-character separator -/
def splitOnChar (sep : Char) : List Char → List (List Char)
  | [] => [[]]
  | c :: cs =>
    match splitOnChar sep cs with
    | [] => [[]]
    | h :: t => if c == sep then [] :: h :: t else (c :: h) :: t

def joinWith (sep : Char) : List (List Char) → List Char
  | [] => []
  | [x] => x
  | x :: xs => x ++ sep :: joinWith sep xs

/-- `s.ljust(n, ch)` -/
def ljust (n : Nat) (ch : Char) (s : String) : String :=
  String.ofList (s.toList ++ List.replicate (n - s.length) ch)

/-- `any(data.startswith(v[0]) and data.endswith(v[1]) for v in STRUCTURE_BRACKET)` -/
def bracketed (s : String) : Bool :=
  Utv.Gen.Tables.STRUCTURE_BRACKET.any fun v =>
    match v.toList with
    | [a, b] => startsWith (String.singleton a) s && endsWith (String.singleton b) s
    | _ => false

/-! ## classes of values -/

/-- class of a value as (builtin, subclass tag); enum members and opaque objects have none -/
def V.cls? : V → Option (Base × Nat)
  | .none => some (.noneType, 0)
  | .bool _ => some (.bool, 0)
  | .int c _ => some (.int, c)
  | .float c _ => some (.float, c)
  | .complex _ _ => some (.complex, 0)
  | .dec c _ => some (.decimal, c)
  | .str c _ => some (.str, c)
  | .bytes k c _ => some (k.base, c)
  | .seq k c _ => some (k.base, c)
  | .dict c _ => some (.dict, c)
  | .date c _ => some (.date, c)
  | .datetime c _ _ => some (.datetime, c)
  | .time c _ => some (.time, c)
  | .delta c _ => some (.timedelta, c)
  | .uuid c _ => some (.uuid, c)
  | .enum _ _ => Option.none
  | .obj _ => Option.none

/-- `type(v)` as a target -/
def V.typeOf : V → Target
  | .enum k _ => .enum k
  | .obj k => .obj k
  | v => match v.cls? with
    | some (b, c) => .cls b c
    | Option.none => .obj 0

/-- `issubclass` between builtins -/
def Base.sub (b d : Base) : Bool := b == d || (b == .bool && d == .int) || (b == .datetime && d == .date)

/-- `isinstance(v, <builtin b>)`.  Members of plain `Enum` classes and opaque objects are instances of no
modelled builtin (members of mixed-in enums are outside the fragment as *inputs*, see `Modelled`). -/
def isInst (v : V) (b : Base) : Bool :=
  match v.cls? with
  | some (b', _) => b'.sub b
  | Option.none => false

/-- `type(v) == t` -/
def typeEq (v : V) (t : Target) : Bool := v.typeOf == t

/-- `isinstance(v, abstract collection class)` -/
def isInstAbc (v : V) : Abc → Bool
  | .sequence => isInst v .str || isInst v .bytes || isInst v .bytearray || isInst v .memoryview ||
      isInst v .list || isInst v .tuple || isInst v .deque
  | .iterable => isInst v .str || isInst v .bytes || isInst v .bytearray || isInst v .memoryview ||
      isInst v .list || isInst v .tuple || isInst v .deque || isInst v .set || isInst v .frozenset || isInst v .dict
  | .iterator => false
  | .mapping => isInst v .dict

/-- `isinstance(v, t)` -/
def isInstT (v : V) : Target → Bool
  | .cls b 0 => isInst v b
  | .cls b (k + 1) => v.cls? == some (b, k + 1)
  | .enum k => match v with
    | .enum k' _ => k == k'
    | _ => false
  | .abc a => isInstAbc v a
  | .obj k => match v with
    | .obj k' => k == k'
    | _ => false

/-- `multi(v)` (utils/functional.py:7-10): list, set, frozenset, tuple (dict views are outside `V`) -/
def multi : V → Bool
  | .seq k _ _ => (match k with | .deque => false | _ => true)
  | _ => false

def fZero : FloatV → Bool
  | .fin m _ => m == 0
  | _ => false

/-- `bool(v)` -/
def truthy : V → Bool
  | .none => false
  | .bool b => b
  | .int _ i => i != 0
  | .float _ f => !fZero f
  | .complex re im => !(fZero re && fZero im)
  | .dec _ (.fin _ c _) => c != 0
  | .dec _ _ => true
  | .str _ s => s != ""
  | .bytes _ _ bs => !bs.isEmpty
  | .seq _ _ xs => !xs.isEmpty
  | .dict _ kvs => !kvs.isEmpty
  | .delta _ us => us != 0
  | _ => true

/-! ## equality and hashing (dict keys, set elements, enum value lookup) -/

def num? : V → Option NumV
  | .bool b => some (.fin ⟨if b then 1 else 0, 0, 0⟩)
  | .int _ i => some (.fin ⟨i, 0, 0⟩)
  | .float _ (.fin m e) => some (.fin ⟨m, e, 0⟩)
  | .float _ (.inf s) => some (.inf s)
  | .float _ .nan => some .nan
  | .dec _ (.fin s c e) => some (.fin ⟨if s then -(c : Int) else c, 0, e⟩)
  | .dec _ (.inf s) => some (.inf s)
  | .dec _ (.nan _) => some .nan
  | _ => Option.none

/-- `a == b` on values that are not containers -/
def eqScalar (a b : V) : Bool :=
  match num? a, num? b with
  | some x, some y => NumV.eq x y
  | _, _ =>
    match a, b with
    | .none, .none => true
    | .complex r i, .complex r' i' => r == r' && i == i' && r != .nan && i != .nan
    | .complex r i, o => fZero i && (match num? o with | some y => NumV.eq (match r with | .fin m e => .fin ⟨m, e, 0⟩ | .inf s => .inf s | .nan => .nan) y | Option.none => false)
    | o, .complex r i => fZero i && (match num? o with | some y => NumV.eq (match r with | .fin m e => .fin ⟨m, e, 0⟩ | .inf s => .inf s | .nan => .nan) y | Option.none => false)
    | .str _ s, .str _ s' => s == s'
    | .bytes _ _ x, .bytes _ _ y => x == y
    | .date _ d, .date _ d' => d == d'
    | .datetime _ d t, .datetime _ d' t' => d == d' && t == t'
    | .time _ t, .time _ t' => t == t'
    | .delta _ x, .delta _ y => x == y
    | .uuid _ x, .uuid _ y => x == y
    | .enum k i, .enum k' i' => k == k' && i == i'
    | .obj k, .obj k' => k == k'
    | _, _ => false

mutual
/-- `a == b`.  Sequences of the same kind compare element-wise; sets compare their (scalar) elements;
dicts are compared entry by entry in order (dicts only occur here as enum member values). -/
def pyeq : V → V → Bool
  | .seq k _ xs, .seq k' _ ys =>
    if k.isSet && k'.isSet then
      xs.length == ys.length && xs.all (fun x => ys.any (fun y => eqScalar x y))
    else if k == k' then pyeqList xs ys else false
  | .seq _ _ _, _ => false
  | .dict _ xs, .dict _ ys => pyeqPairs xs ys
  | .dict _ _, _ => false
  | a, b => eqScalar a b
termination_by structural a => a
def pyeqList : List V → List V → Bool
  | [], [] => true
  | x :: xs, y :: ys => pyeq x y && pyeqList xs ys
  | _, _ => false
termination_by structural xs => xs
def pyeqPairs : List (V × V) → List (V × V) → Bool
  | [], [] => true
  | (a, b) :: xs, (c, d) :: ys => pyeq a c && pyeq b d && pyeqPairs xs ys
  | _, _ => false
termination_by structural xs => xs
end

mutual
/-- `hash(v)` does not raise -/
def hashable : V → Bool
  | .seq k _ xs => (match k with | .tuple => hashableList xs | .frozenset => true | _ => false)
  | .dict _ _ => false
  | .bytes k _ _ => k != .bytearray
  | .dec _ (.nan true) => false          -- "Cannot hash a signaling NaN value"
  | _ => true
termination_by structural v => v
def hashableList : List V → Bool
  | [] => true
  | x :: xs => hashable x && hashableList xs
termination_by structural xs => xs
end

/-- keep the first of equal elements (what building a set / dict keys does) -/
def dedupAux (seen : List V) : List V → List V
  | [] => []
  | x :: xs => if seen.any (pyeq x) then dedupAux seen xs else x :: dedupAux (x :: seen) xs
def dedup (xs : List V) : List V := dedupAux [] xs

/-- `d[k] = v` on an insertion-ordered association list -/
def dictSet (kvs : List (V × V)) (k v : V) : List (V × V) :=
  if kvs.any (fun p => pyeq p.1 k) then kvs.map (fun p => if pyeq p.1 k then (p.1, v) else p)
  else kvs ++ [(k, v)]

/-! ## construction of results: `t(...)` -/

def subOf : Target → Nat
  | .cls _ c => c
  | _ => 0

/-- `t(items)` for `t` a list/tuple/set/frozenset/deque class -/
def construct (b : SeqK) (c : Nat) (items : List V) : Outcome V :=
  if b.isSet then
    if items.all hashable then .ok (.seq b c (dedup items)) else .perr .typeError
  else .ok (.seq b c items)

/-- `iter(v)` as a list; `none` = not iterable (TypeError) -/
def iterOf : V → Outcome (List V)
  | .seq k _ xs =>
    if k.isSet && xs.length > 1 then .unmodelled "iteration order of a set"
    else .ok xs
  | .str _ s => .ok (s.toList.map fun ch => .str 0 (String.singleton ch))
  | .bytes _ _ bs => .ok (bs.map fun b => .int 0 b.toNat)
  | .dict _ kvs => .ok (kvs.map (·.1))
  | _ => .perr .typeError

/-- the loop `for item in data: key, val = item; result[key] = val` (transform.py:328-337); with
`rejectMapping` the no_data_loss variant that raises on mapping items.  `dict(iterable)` accepts exactly
the same items. -/
def pairsOf (rejectMapping : Bool) : List V → List (V × V) → Outcome (List (V × V))
  | [], acc => .ok acc
  | item :: rest, acc =>
    if rejectMapping && isInst item .dict then .perr .typeError else
    match iterOf item with
    | .ok [k, v] => if hashable k then pairsOf rejectMapping rest (dictSet acc k v) else .perr .typeError
    | .ok _ => .perr .valueError
    | .perr e => .perr e
    | .escape e => .escape e
    | .diverge => .diverge
    | .unmodelled w => .unmodelled w

/-- `dict(x)` -/
def dictOf (x : V) : Outcome (List (V × V)) :=
  match x with
  | .dict _ kvs => .ok kvs
  | _ => do
    let items ← iterOf x
    pairsOf false items []

/-! ## `_attempt_from`, `_from_byte_like`, `_attempt_from_number` -/

def Env.enumValue (E : Env) (k i : Nat) : Outcome V :=
  match E.enum? k with
  | some d => match d.members[i]? with
    | some (_, v) => .ok v
    | Option.none => .unmodelled "no such enum member"
  | Option.none => .unmodelled "no such enum"

/-- transform.py:144-162 -/
def attemptFrom (E : Env) (f : Flags) (v : V) : Outcome V :=
  if f.nec then .ok v else
  match v with
  | .seq k c xs =>
    if multi (.seq k c xs) && !xs.isEmpty then
      if f.ndl && xs.length > 1 then .perr .typeError
      else if k.isSet && xs.length > 1 then .unmodelled "first element of a set"
      else match xs with
        | x :: _ => .ok x                      -- `next(iter(value))` (ea05768; was `list(value)[0]`)
        | [] => .ok v
    else .ok v
  | .enum k i => E.enumValue k i
  | _ => .ok v

/-- `bs.decode(errors=…)`; the empty byte string decodes to the empty text -/
def decodeB (P : Prims) (strict : Bool) (bs : List UInt8) : Outcome String :=
  if bs.isEmpty then .ok "" else P.decode strict bs

/-- `json.loads(s, strict=…)`; the empty text is not JSON -/
def jsonLoadsS (P : Prims) (strict : Bool) (s : String) : Outcome V :=
  if s == "" then .perr .jsonDecode else P.jsonLoads strict s

/-- transform.py:164-169 -/
def fromByteLike (P : Prims) (f : Flags) (v : V) : Outcome V :=
  match v with
  | .bytes _ _ bs => do
    let s ← decodeB P f.ndl bs
    pure (.str 0 s)
  | _ => .ok v

/-- transform.py:171-184 -/
def attemptFromNumber (P : Prims) (E : Env) (f : Flags) (v : V) : Outcome V := do
  let d ← attemptFrom E f v
  let d ← fromByteLike P f d
  match d with
  | .datetime _ _ _ => do
    let x ← P.timestampOf d
    pure (.float 0 x)
  | .delta _ us => do
    let x ← P.totalSeconds us
    pure (.float 0 x)
  | .complex re im =>
    if !f.ndl then
      if fZero im then pure (.float 0 re) else pure d
    else if !truthy d then pure (.int 0 0) else pure d
  | _ => if !truthy d then pure (.int 0 0) else pure d

/-! ## numeric builtins: `float(x)`, `Decimal(x)`, `int(Decimal)` -/

def normZ : FloatV → FloatV
  | .fin m e => if m == 0 then .fin 0 0 else .fin m e
  | f => f

def floatOfInt (P : Prims) (i : Int) : Outcome FloatV :=
  if i == 0 then .ok (.fin 0 0) else P.floatOfInt i

def floatOfDec (P : Prims) : DecV → Outcome FloatV
  | .fin s c e => if c == 0 then .ok (.fin 0 0) else P.floatOfDec (.fin s c e)
  | d => P.floatOfDec d

def floatOfStr (P : Prims) (s : String) : Outcome FloatV :=
  if s == "" then .perr .valueError else P.floatOfStr s

/-- `t(data)` for `t` a float class -/
def floatOf (P : Prims) (c : Nat) (d : V) : Outcome V :=
  match d with
  | .bool b => do let f ← floatOfInt P (if b then 1 else 0); pure (.float c f)
  | .int _ i => do let f ← floatOfInt P i; pure (.float c f)
  | .float _ f => pure (.float c (normZ f))
  | .dec _ x => do let f ← floatOfDec P x; pure (.float c f)
  | .str _ s => do let f ← floatOfStr P s; pure (.float c f)
  | .bytes _ _ _ => .unmodelled "float(bytes)"
  | .enum _ _ => .perr .typeError
  | _ => .perr .typeError

/-- `Decimal(f)` for a float: exact -/
def decOfFloatExact : FloatV → DecV
  | .fin m e =>
    if e ≥ 0 then .fin (decide (m < 0)) (m.natAbs * 2 ^ e.toNat) 0
    else .fin (decide (m < 0)) (m.natAbs * 5 ^ (-e).toNat) e
  | .inf s => .inf s
  | .nan => .nan false

def decOfStr (P : Prims) (s : String) : Outcome DecV :=
  if s == "" then .escape .invalidOperation else P.decOfStr s

/-- `Decimal(data)` (to_integer, transform.py:436-439); `InvalidOperation` is still an escape here -/
def decimalOf (P : Prims) (d : V) : Outcome DecV :=
  match d with
  | .bool b => .ok (.fin false (if b then 1 else 0) 0)
  | .int _ i => .ok (.fin (decide (i < 0)) i.natAbs 0)
  | .float _ f => .ok (decOfFloatExact f)
  | .dec _ x => .ok x
  | .str _ s => decOfStr P (pyStrip s)
  | .seq k _ _ => (match k with
    | .tuple => .unmodelled "Decimal(tuple)" | .list => .unmodelled "Decimal(tuple)" | _ => .perr .typeError)
  | _ => .perr .typeError

/-- `int(d)` for a Decimal -/
def intOfDec : DecV → Outcome Int
  | .fin s c e =>
    let n : Int := if e ≥ 0 then (c * 10 ^ e.toNat : Nat) else (c / 10 ^ (-e).toNat : Nat)
    .ok (if s then -n else n)
  | .inf _ => .escape .overflow
  | .nan _ => .perr .valueError

/-- `int(f)` for a float -/
def intOfFloat : FloatV → Outcome Int
  | .fin m e => if e ≥ 0 then .ok (m * 2 ^ e.toNat) else .ok (m.tdiv (2 ^ (-e).toNat))
  | .inf _ => .escape .overflow
  | .nan => .perr .valueError

/-- `str(d)`: concrete where the text is obvious, a builtin otherwise -/
def pyStr (P : Prims) : V → Outcome String
  | .none => .ok "None"
  | .bool b => .ok (if b then "True" else "False")
  | .int _ i => .ok (toString i)
  | .str _ s => .ok s
  | v => P.strOf v

/-- `Decimal(str(data).strip())` (to_decimal, transform.py:449) -/
def decViaStr (P : Prims) (d : V) : Outcome DecV :=
  match d with
  | .bool _ => .escape .invalidOperation                       -- Decimal('True')
  | .int _ i => .ok (.fin (decide (i < 0)) i.natAbs 0)
  | .float _ f => if fZero f then .ok (.fin false 0 (-1)) else P.decOfFloatRepr f
  | .str _ s => decOfStr P (pyStrip s)
  | .complex _ _ => .escape .invalidOperation                  -- Decimal('(1+0j)')
  | v => do
    let s ← P.strOf v
    decOfStr P (pyStrip s)

/-! ## the converters -/

open Utv.Gen.Tables in
/-- `to_null` transform.py:198-208 -/
def toNull (f : Flags) (v : V) : Outcome V :=
  match v with
  | .none => .ok .none
  | .str _ s =>
    if f.nec then .perr .typeError
    else if NULL_VALUES.contains (pyLower s) then .ok .none else .perr .typeError
  | _ => .perr .typeError

/-- `to_str` :232-239 -/
def toStr (P : Prims) (E : Env) (f : Flags) (c : Nat) (v : V) : Outcome V :=
  match v with
  | .str _ s => .ok (.str c s)
  | _ => do
    let d ← attemptFrom E f v
    let d ← fromByteLike P f d
    if f.nec && !isInst d .str then .perr .typeError else do
    let s ← pyStr P d
    pure (.str c s)

/-- `to_bytes` :241-256 -/
def toBytes (P : Prims) (E : Env) (f : Flags) (b : BytesK) (c : Nat) (v : V) : Outcome V := do
  let d ← attemptFrom E f v
  match d with
  | .bytes _ _ bs => pure (.bytes b c bs)
  | .str _ s => pure (.bytes b c s.toUTF8.toList)
  | _ =>
    if f.nec then .perr .typeError else do
    let s ← pyStr P d
    pure (.bytes b c s.toUTF8.toList)

/-- the tail of `to_array_types` after the string guesses (:301-311) -/
def arrayTail (f : Flags) (b : SeqK) (c : Nat) (d : V) : Outcome V :=
  match d with
  | .dict _ kvs =>
    if b == .set then
      if f.ndl then .perr .typeError else construct b c (kvs.map (·.1))
    else if kvs.isEmpty then construct b c []
    else construct b c [d]
  | _ => construct b c [d]

/-- first separator of `ARRAY_SEPARATORS` that occurs: `t(v.strip() for v in data.split(sep))` -/
def splitFirstSep (s : String) : List String → Option (List V)
  | [] => Option.none
  | sep :: rest =>
    match sep.toList with
    | [ch] =>
      if s.toList.contains ch then
        some ((splitOnChar ch s.toList).map fun part => V.str 0 (String.ofList (stripL part)))
      else splitFirstSep s rest
    | _ => splitFirstSep s rest

/-- `t(data)` for a `multi` value -/
def constructFrom (b : SeqK) (c : Nat) (v : V) : Outcome V :=
  match v with
  | .seq k _ xs =>
    if k.isSet && xs.length > 1 && !b.isSet
    then .unmodelled "iteration order of a set" else construct b c xs
  | _ => .unmodelled "construct from a non-sequence"

/-- the string guesses of `to_array_types` (:271-296) -/
def arrayOfString (P : Prims) (f : Flags) (b : SeqK) (c : Nat) (s0 : String) : Outcome V :=
  let s := pyStrip s0
  if bracketed s then
    match P.jsonLoads true s with
    | .ok j =>
      (match j with
       | .seq .list _ xs => construct b c xs
       | _ => arrayTail f b c j)
    | .perr .jsonDecode =>
      P.literalEval s >>= fun lit => if multi lit then constructFrom b c lit else arrayTail f b c lit
    | .perr e => .perr e
    | .escape e => .escape e
    | .diverge => .diverge
    | .unmodelled w => .unmodelled w
  else
    match splitFirstSep s Utv.Gen.Tables.ARRAY_SEPARATORS with
    | some parts => construct b c parts
    | Option.none => arrayTail f b c (.str 0 s)

/-- `to_array_types` :258-312 -/
def toArray (P : Prims) (f : Flags) (b : SeqK) (c : Nat) (v : V) : Outcome V :=
  if isInstT v (.cls b.base c) then .ok v else
  if multi v then constructFrom b c v else
  if f.nec then .perr .typeError else
  fromByteLike P f v >>= fun d =>
    match d with
    | .str _ s0 => arrayOfString P f b c s0
    | _ => arrayTail f b c d

/-- `to_iter_types` :211-220 for the abstract classes (`t` stays abstract: the list result is returned) -/
def toIter (P : Prims) (f : Flags) (a : Abc) (v : V) : Outcome V :=
  if isInstAbc v a then .ok v else toArray P f .list 0 v

/-- cookie / comma syntax of `to_dict` (:384-391) -/
def cookieDict (s : String) : List (V × V) :=
  let spliter : Char := if s.toList.contains ';' then ';' else ','
  (splitOnChar spliter s.toList).foldl (fun acc value =>
    let parts := splitOnChar '=' value
    let k := String.ofList (stripL (parts.headD []))
    let v := String.ofList (stripL (joinWith '=' (parts.drop 1)))
    dictSet acc (.str 0 k) (.str 0 v)) []

/-- `{k: v[0] if len(v) == 1 else v for k, v in qs.items()}` -/
def qsDict : V → Outcome (List (V × V))
  | .dict _ kvs => .ok (kvs.map fun (k, v) =>
      match v with
      | .seq _ _ [x] => (k, x)
      | _ => (k, v))
  | _ => .unmodelled "parse_qs result"

/-- the string branch of `to_dict` (:361-392) -/
def dictOfString (P : Prims) (E : Env) (f : Flags) (c : Nat) (s0 : String) : Outcome V :=
  match jsonLoadsS P f.ndl s0 with
  | .ok j => do let kvs ← dictOf j; pure (.dict c kvs)
  | .perr .jsonDecode =>
    let s := pyStrip s0
    if bracketed s then do
      let lit ← P.literalEval s
      let res ← attemptFrom E f lit
      match res with
      | .dict _ kvs => pure (.dict c kvs)
      | _ => .perr .jsonDecode
    else if s.toList.contains '=' then
      if s.toList.contains '&' then do
        let qs ← P.parseQs s
        let kvs ← qsDict qs
        pure (.dict c kvs)
      else pure (.dict c (cookieDict s))
    else .perr .jsonDecode
  | .perr e => .perr e
  | .escape e => .escape e
  | .diverge => .diverge
  | .unmodelled w => .unmodelled w

/-- everything of `to_dict` after the pair attempts (:359-399) -/
def dictRest (P : Prims) (E : Env) (f : Flags) (c : Nat) (v : V) : Outcome V := do
  let d ← attemptFrom E f v
  let d ← fromByteLike P f d
  match d with
  | .str _ s => dictOfString P E f c s
  | _ => do let kvs ← dictOf d; pure (.dict c kvs)

/-- items of a `multi` value -/
def itemsOf : V → List V
  | .seq _ _ xs => xs
  | _ => []

/-- `to_dict` :314-399 (with fix C12-dict-pairs: `multi(data)` in the no_data_loss branch and no pair
reading of collections that hold mappings in the lenient branch) -/
def toDict (P : Prims) (E : Env) (f : Flags) (c : Nat) (v : V) : Outcome V :=
  if isInstT v (.cls .dict c) then .ok v else
  match v with
  | .dict _ kvs => .ok (.dict c kvs)
  | _ =>
    if f.nec then .perr .typeError else
    if f.ndl then
      if multi v then
        match (iterOf v >>= fun items => pairsOf true items []) with
        | .ok kvs => .ok (.dict c kvs)
        | .perr _ => dictRest P E f c v
        | .escape e => .escape e
        | .diverge => .diverge
        | .unmodelled w => .unmodelled w
      else dictRest P E f c v
    else
      if multi v && (itemsOf v).any (fun x => isInst x .dict) then dictRest P E f c v else
      match dictOf v with
      | .ok kvs => .ok (.dict c kvs)
      | .perr _ => dictRest P E f c v
      | .escape e => .escape e
      | .diverge => .diverge
      | .unmodelled w => .unmodelled w

/-- `to_mapping` :222-230 for the abstract class -/
def toMapping (P : Prims) (E : Env) (f : Flags) (v : V) : Outcome V :=
  if isInstAbc v .mapping then .ok v else toDict P E f 0 v

/-- `to_float` :401-413 -/
def toFloat (P : Prims) (E : Env) (f : Flags) (c : Nat) (v : V) : Outcome V :=
  match v with
  | .float _ x => .ok (.float c (normZ x))
  | _ =>
    if f.nec then
      if isInst v .int || isInst v .decimal then floatOf P c v else .perr .typeError
    else do
      let d ← attemptFromNumber P E f v
      floatOf P c d

/-- finite Decimal with exponent 0 (`data.is_finite()` and `not data.as_tuple().exponent`) -/
def decFinExp0 : DecV → Bool
  | .fin _ _ e => e == 0
  | _ => false

/-- the tail of `to_integer` (:436-449): `Decimal(data)` (InvalidOperation → TypeError), the no_data_loss
checks, `t(data)` -/
def intFinish (P : Prims) (f : Flags) (c : Nat) (d : V) : Outcome V :=
  match decimalOf P d with
  | .escape .invalidOperation => .perr .typeError
  | .ok x =>
    if f.ndl && !decFinExp0 x then .perr .typeError else do
    let i ← intOfDec x
    pure (.int c i)
  | .perr e => .perr e
  | .escape e => .escape e
  | .diverge => .diverge
  | .unmodelled w => .unmodelled w

/-- `t(data)` for `data` already an instance of the int class `t` (with fix C12-int-from-sequence-keeps-bool: the
unwrapped value is re-wrapped, so a bool taken out of a one-item sequence becomes 1 / 0 as a bare bool does;
before the fix `data` itself was returned: `[True]` → `True`) -/
def intOfInst (c : Nat) (d : V) : V :=
  match d with
  | .bool b => .int c (if b then 1 else 0)
  | .int _ i => .int c i
  | _ => d

/-- re-wrapping an instance of `int` gives an instance of `int` (used by C01's `intAfter_inst`) -/
theorem intOfInst_inst (d : V) (h : isInstT d (.cls .int 0) = true) : isInstT (intOfInst 0 d) (.cls .int 0) = true := by
  cases d <;> first | rfl | exact h

open Utv.Gen.Tables in
/-- `to_integer` after `_attempt_from_number` (:428-434): the word tables (plain `0` / `1`, whatever `t` is),
the `isinstance(data, t)` shortcut -/
def intAfter (P : Prims) (f : Flags) (c : Nat) (d : V) : Outcome V :=
  match d with
  | .str _ s =>
    if FALSE_VALUES.contains (pyLower s) then .ok (.int 0 0)
    else if TRUE_VALUES.contains (pyLower s) then .ok (.int 0 1)
    else intFinish P f c d
  | _ => if isInstT d (.cls .int c) then .ok (intOfInst c d) else intFinish P f c d

/-- `to_integer` :414-449 -/
def toInteger (P : Prims) (E : Env) (f : Flags) (c : Nat) (v : V) : Outcome V :=
  match v with
  | .bool b => .ok (.int c (if b then 1 else 0))
  | .int _ i => .ok (.int c i)
  | _ =>
    if f.nec then
      if isInst v .float || isInst v .decimal then intFinish P f c v else .perr .typeError
    else do
      let d ← attemptFromNumber P E f v
      intAfter P f c d

/-- `to_decimal` :450-463 -/
def toDecimal (P : Prims) (E : Env) (f : Flags) (c : Nat) (v : V) : Outcome V :=
  match v with
  | .dec _ x => .ok (.dec c x)
  | _ => do
    let d ← (if f.nec then do
        let d ← fromByteLike P f v
        if isInst d .int || isInst d .float || isInst d .str || isInst d .decimal then pure d
        else .perr .typeError
      else attemptFromNumber P E f v)
    let x ← decViaStr P d
    pure (.dec c x)

/-- `complex(d)`: exact on complex / float / zero, a builtin otherwise -/
def complexOf (P : Prims) (d : V) : Outcome V :=
  match d with
  | .complex re im => .ok (.complex (normZ re) (normZ im))
  | .float _ f => .ok (.complex (normZ f) (.fin 0 0))
  | .int _ i => if i == 0 then .ok (.complex (.fin 0 0) (.fin 0 0)) else P.complexOf d
  | .bool b => if b then P.complexOf d else .ok (.complex (.fin 0 0) (.fin 0 0))
  | .dec _ (.fin _ c _) => if c == 0 then .ok (.complex (.fin 0 0) (.fin 0 0)) else P.complexOf d
  | .str _ s => if s == "" then .perr .valueError else P.complexOf d
  | _ => P.complexOf d

/-- `to_complex` :464-480 -/
def toComplex (P : Prims) (E : Env) (f : Flags) (c : Nat) (v : V) : Outcome V :=
  if isInstT v (.cls .complex c) then .ok v else
  if f.nec then do
    let d ← fromByteLike P f v
    if isInst d .int || isInst d .float || isInst d .decimal || isInst d .str then complexOf P d
    else .perr .typeError
  else
    match v with
    | .seq .tuple _ [a, b] => P.complexOf2 a b
    | _ => do
      let d ← attemptFromNumber P E f v
      complexOf P d

/-- `data == n` for `n ∈ {0, 1}` (to_bool :486-489); a signalling Decimal NaN raises InvalidOperation -/
def eqSmall (v : V) (n : Int) : Outcome Bool :=
  match v with
  | .dec _ (.nan true) => .escape .invalidOperation
  | .complex re im =>
    .ok (fZero im && (match re with | .fin m e => NumV.eq (.fin ⟨m, e, 0⟩) (.fin ⟨n, 0, 0⟩) | _ => false))
  | _ => match num? v with
    | some x => .ok (NumV.eq x (.fin ⟨n, 0, 0⟩))
    | Option.none => .ok false

open Utv.Gen.Tables in
/-- `to_bool` :481-503 -/
def toBool (P : Prims) (f : Flags) (v : V) : Outcome V :=
  match v with
  | .bool b => .ok (.bool b)
  | _ => do
    if (← eqSmall v 1) then .ok (.bool true) else
    if (← eqSmall v 0) then .ok (.bool false) else
    if f.nec then .perr .typeError else do
    let d ← (match v with
      | .bytes .bytes _ bs => do let s ← decodeB P true bs; pure (V.str 0 s)
      | _ => pure v)
    let s ← pyStr P d
    let rep := pyLower s
    if FALSE_VALUES.contains rep then .ok (.bool false)
    else if TRUE_VALUES.contains rep then .ok (.bool true)
    else if f.ndl then .perr .typeError
    else .ok (.bool (truthy d))

/-- `DATE_FORMATS` / `DATETIME_FORMATS` (transform.py:49-74; compared with the source text by the check) -/
def DATE_FORMATS : List String :=
  ["%Y-%m-%d", "%d %b %Y", "%d %B %Y", "%Y/%m/%d", "%d/%m/%Y", "%m/%d/%Y", "%d-%m-%Y",
   "%A, %d %B %Y", "%a, %d %b %Y", "%Y%m%d"]
def DATETIME_FORMATS : List String :=
  ["%Y-%m-%d %H:%M:%S", "%Y-%m-%d %H:%M:%S.%f", "%Y-%m-%d %H:%M:%S %f", "%Y-%m-%d %I:%M:%S %p",
   "%Y-%m-%dT%H:%M:%S", "%Y-%m-%dT%H:%M:%S.%f", "%a, %d %b %Y %H:%M:%S", "%a %b %d %H:%M:%S %Y",
   "%b %d %H:%M:%S %Y", "%Y-%m-%d %H:%M"]

/-- `abs(x) > MS_WATERSHED` -/
def absGtWatershed (x : V) : Outcome Bool :=
  let w : NumV := .fin ⟨Utv.Gen.Tables.MS_WATERSHED, 0, 0⟩
  match x with
  | .dec _ (.nan _) => .escape .invalidOperation
  | _ => match num? x with
    | some (.fin q) => .ok (NumV.lt w (.fin ⟨q.n.natAbs, q.p2, q.p10⟩))
    | some (.inf _) => .ok true
    | some .nan => .ok false
    | Option.none => .perr .typeError

def isInfinite : V → Bool
  | .float _ (.inf _) => true
  | .dec _ (.inf _) => true
  | _ => false

/-- `while abs(data) > MS_WATERSHED: data /= 1000` (transform.py:533-534, 564-565).  On ±inf the loop
never ends (`inf / 1000 = inf`): `diverge` (no longer reachable from `to_datetime`, which now rejects
non-finite values before the loop; kept because it is what the loop itself does).  `fuel` bounds the
iterations on finite values. -/
def tsLoop (P : Prims) : Nat → V → Outcome V
  | 0, _ => .unmodelled "timestamp loop fuel"
  | n + 1, x => do
    if (← absGtWatershed x) then
      if isInfinite x then .diverge else do
      let y ← P.div1000 x
      tsLoop P n y
    else pure x

def tsFuel : V → Nat
  | .dec _ (.fin _ c e) => (Nat.toDigits 10 c).length + e.toNat + 8
  | .int _ i => (Nat.toDigits 10 i.natAbs).length + 8
  | _ => 400

def retag (c : Nat) : V → V
  | .datetime _ d t => .datetime c d t
  | .time _ t => .time c t
  | .delta _ us => .delta c us
  | .date _ d => .date c d
  | v => v

def setUtc : V → V
  | .datetime c d t => .datetime c d { t with tz := some 0 }
  | v => v

/-- `for f in formats: try: return strptime(data, f + suffix) except (TypeError, ValueError, re.error): continue` -/
def firstFormat (P : Prims) (s suffix : String) (isUtc : Bool) (c : Nat) : List String → Outcome (Option V)
  | [] => .ok Option.none
  | fmt :: rest =>
    match P.strptime s (fmt ++ suffix) with
    | .ok val => .ok (some (retag c (if isUtc then setUtc val else val)))
    | .perr _ => firstFormat P s suffix isUtc c rest
    | .escape e => .escape e
    | .diverge => .diverge
    | .unmodelled w => .unmodelled w

/-- `math.isfinite(x)` on an int / float / Decimal: the argument is converted with `float()` first
(`OverflowError` for a huge int, `ValueError` for a signalling NaN; `Decimal('1E+400')` becomes `inf`) -/
def isFiniteTs (P : Prims) (x : V) : Outcome Bool :=
  let fin (f : FloatV) : Bool := match f with | .fin _ _ => true | _ => false
  match x with
  | .bool _ => .ok true
  | .int _ i => do let f ← floatOfInt P i; pure (fin f)
  | .float _ f => .ok (fin f)
  | .dec _ d => do let f ← floatOfDec P d; pure (fin f)
  | _ => .perr .typeError

/-- the timestamp branch of `to_datetime` (:530-535, :576-580): non-finite values raise ValueError (fix 8de0bd0:
before it the loop below never ended on ±inf), then the watershed loop, then `utcfromtimestamp` -/
def timestampResult (P : Prims) (c : Nat) (x : V) : Outcome V := do
  if !(← isFiniteTs P x) then .perr .valueError else do
  let y ← tsLoop P (tsFuel x) x
  let r ← P.utcFromTs y
  pure (retag c r)

/-- `to_datetime` :521-582.  `toFloatStr` is `self.to_float(data, float)` on the cleaned string. -/
def toDatetime (P : Prims) (E : Env) (f : Flags) (c : Nat) (dateFirst : Bool) (v : V) : Outcome V :=
  if isInstT v (.cls .datetime c) then .ok v else
  match v with
  | .date _ d => .ok (.datetime c d ⟨0, 0, 0, 0, Option.none⟩)
  | .datetime _ d _ => .ok (.datetime c d ⟨0, 0, 0, 0, Option.none⟩)   -- isinstance(data, date): time of day dropped
  | _ => do
    let d ← attemptFrom E f v
    if isInst d .int || isInst d .float || isInst d .decimal then timestampResult P c d else do
    let d ← fromByteLike P f d
    match d with
    | .str _ s0 =>
      let isUtc := strContains "GMT" s0 || strContains "UTC" s0 || (endsWith "Z" s0 && strContains "T" s0)
      let s1 := removeAll "TZD" (removeAll "UTC" (removeAll "GMT" s0))
      let s := String.ofList (stripL (rstripChar 'Z' s1.toList))
      let formats := if dateFirst then DATE_FORMATS ++ DATETIME_FORMATS else DATETIME_FORMATS ++ DATE_FORMATS
      do
      match (← firstFormat P s "" isUtc c formats) with
      | some r => pure r
      | Option.none => do
        let second ← (if strContains "+" s || strContains "-" s then
            firstFormat P s (if strContains " +" s || strContains " -" s then " %z" else "%z") isUtc c formats
          else pure Option.none)
        match second with
        | some r => pure r
        | Option.none =>
          -- `try: num = self.to_float(data, float) except (TypeError, ValueError): pass`
          match (if f.nec then (.perr .typeError : Outcome V) else
                  (attemptFromNumber P E f (.str 0 s) >>= floatOf P 0)) with
          | .ok num => timestampResult P c num
          | .perr _ => .perr .typeError
          | .escape e => .escape e
          | .diverge => .diverge
          | .unmodelled w => .unmodelled w
    | _ => .perr .typeError                     -- `if not isinstance(data, str): raise TypeError('invalid datetime')` (7b3aeda)

def midnight (t : TimeV) : Bool := t.hh == 0 && t.mi == 0 && t.ss == 0 && t.us == 0

/-- `to_date` :504-519 (registered with allow_subclasses=False: only `date` itself) -/
def toDate (P : Prims) (E : Env) (f : Flags) (v : V) : Outcome V :=
  match v with
  | .datetime _ d _ => if f.ndl then .perr .valueError else .ok (.date 0 d)
  | .date _ _ => .ok v
  | _ => do
    let dt ← toDatetime P E f 0 true v
    match dt with
    | .datetime _ d t =>
      if f.ndl && !midnight t then .perr .valueError else pure (.date 0 d)
    | _ => .unmodelled "to_datetime returned a non-datetime"

/-- `kw` handling of `to_timedelta` :602-614 -/
def durationKw (P : Prims) (_c : Nat) (kw : List (String × Option String)) : Outcome V := do
  let sign : Int := if kw.lookup "sign" == some (some "-") then -1 else 1
  let kw := kw.filter (fun p => p.1 != "sign")
  let get (k : String) : Option String := (kw.lookup k).join
  let nonEmpty (o : Option String) : Bool := match o with | some s => s != "" | Option.none => false
  let kw := if nonEmpty (get "microseconds") then
      kw.map (fun p => if p.1 == "microseconds" then (p.1, p.2.map (ljust 6 '0')) else p) else kw
  let get2 (k : String) : Option String := (kw.lookup k).join
  let kw := if nonEmpty (get2 "seconds") && nonEmpty (get2 "microseconds") &&
        startsWith "-" ((get2 "seconds").getD "") then
      kw.map (fun p => if p.1 == "microseconds" then (p.1, p.2.map ("-" ++ ·)) else p) else kw
  let rec floats : List (String × Option String) → Outcome (List (String × FloatV))
    | [] => .ok []
    | (k, some s) :: rest => do
      let x ← floatOfStr P s
      let r ← floats rest
      pure ((k, x) :: r)
    | (_, Option.none) :: rest => floats rest
  let kwf ← floats kw
  let r ← P.timedeltaKw sign kwf
  pure (retag 0 r)          -- `sign * t(**kw)`: timedelta.__rmul__ returns a plain timedelta, whatever `t` is

/-- the `DURATION_REGS` loop -/
def durationRegs (P : Prims) (c : Nat) (s : String) : List Nat → Outcome (Option V)
  | [] => .ok Option.none
  | i :: rest => do
    match (← P.durationMatch i s) with
    | some kw => do let r ← durationKw P c kw; pure (some r)
    | Option.none => durationRegs P c s rest

/-- `to_timedelta` :584-624 -/
def toTimedelta (P : Prims) (E : Env) (f : Flags) (c : Nat) (v : V) : Outcome V :=
  if isInstT v (.cls .timedelta c) then .ok v else do
  let d ← attemptFrom E f v
  let d ← fromByteLike P f d
  match toFloat P E f 0 d with
  | .ok (.float _ num) =>
    if f.nec && isInst d .str then .perr .typeError else do
    let r ← P.timedeltaSec num
    pure (retag c r)
  | .ok _ => .unmodelled "to_float returned a non-float"
  | .perr _ =>
    (match d with
     | .str _ s => do
       match (← durationRegs P c s [0, 1]) with
       | some r => pure r
       | Option.none =>
         if f.nec then .perr .valueError else do
         let tm ← P.timeFromIso s
         match tm with
         | .time _ t =>
           pure (.delta c (((t.hh * 3600 + t.mi * 60 + t.ss : Nat) : Int) * 1000000 + t.us))
         | _ => .unmodelled "time.fromisoformat result"
     | _ => .perr .typeError)
  | .escape e => .escape e
  | .diverge => .diverge
  | .unmodelled w => .unmodelled w

/-- `to_time` :626-643 -/
def toTime (P : Prims) (E : Env) (f : Flags) (c : Nat) (v : V) : Outcome V :=
  if isInstT v (.cls .time c) then .ok v else do
  let d ← attemptFrom E f v
  let early : Option V :=
    if f.ndl then Option.none else
    match d with
    | .datetime _ _ t => some (.time 0 { t with tz := Option.none })   -- `data.time()`: plain time, tzinfo dropped
    | .date _ _ => some (.time c ⟨0, 0, 0, 0, Option.none⟩)            -- `t()`
    | _ => Option.none
  match early with
  | some r => pure r
  | Option.none => do
    let d ← fromByteLike P f d
    match d with
    | .str _ s =>
      if s.toList.contains ':' then
        match P.timeFromIso s with
        | .ok r => pure (retag c r)
        | .perr .valueError => do
          -- `self.to_datetime(f'1970-01-01 {data}').time()`
          let dt ← toDatetime P E f 0 false (.str 0 ("1970-01-01 " ++ s))
          match dt with
          | .datetime _ _ t => pure (.time 0 { t with tz := Option.none })
          | _ => .unmodelled "to_datetime returned a non-datetime"
        | .perr .jsonDecode => .unmodelled "time.fromisoformat raised JSONDecodeError"
        | o => o
      else .perr .typeError
    | _ => .perr .typeError

def bytesToNat (bs : List UInt8) : Nat := bs.foldl (fun acc b => acc * 256 + b.toNat) 0

/-- `to_uuid` :645-668 -/
def toUuid (P : Prims) (f : Flags) (c : Nat) (v : V) : Outcome V :=
  if isInstT v (.cls .uuid c) then .ok v else
  match v with
  | .str _ s => do let n ← P.uuidOfStr s; pure (.uuid c n)
  | .bytes k _ bs =>
    if k == .memoryview then .perr .typeError else do
    -- `try: return t(data.decode()) except ValueError: return t(bytes=data)`
    let n ← Outcome.orElseV (decodeB P true bs >>= P.uuidOfStr)
      (if bs.length != 16 then .perr .valueError
       else if k == .bytearray then .escape (.other "AssertionError")   -- uuid.py: `assert isinstance(bytes, bytes_)`
       else .ok (bytesToNat bs))
    pure (.uuid c n)
  | _ =>
    if f.nec then .perr .typeError else do
    let d ← (if !f.ndl then
        match v with
        | .float _ x => do let i ← intOfFloat x; pure (V.int 0 i)
        | .dec _ x => do let i ← intOfDec x; pure (V.int 0 i)
        | _ => pure v
      else pure v)
    match d with
    | .bool b => pure (.uuid c (if b then 1 else 0))
    | .int _ i => if 0 ≤ i && i < 2 ^ 128 then pure (.uuid c i.toNat) else .perr .valueError
    | _ => .perr .typeError

def isSNaN : V → Bool
  | .dec _ (.nan true) => true
  | _ => false

/-- `t(data)` for an Enum class: the first member whose value equals `data`, else ValueError -/
def enumCall (E : Env) (k : Nat) (v : V) : Outcome V :=
  match E.enum? k with
  | Option.none => .unmodelled "no such enum"
  | some d =>
    -- hashing a signalling NaN raises TypeError (caught by `Enum.__call__`), the fallback scan compares it
    -- with every member value: InvalidOperation as soon as one is a number
    if isSNaN v && d.members.any (fun m => (num? m.2).isSome)
    then .escape .invalidOperation else
    match d.members.findIdx? (fun m => pyeq m.2 v) with
    | some i => .ok (.enum k i)
    | Option.none => .perr .valueError

/-- `t.__members__[name]` -/
def enumByName (E : Env) (k : Nat) (name : String) : Option V :=
  match E.enum? k with
  | Option.none => Option.none
  | some d =>
    -- an alias name resolves to the canonical (first) member with that value
    match d.members.find? (fun m => m.1 == name) with
    | some m => (d.members.findIdx? (fun m' => pyeq m'.2 m.2)).map (.enum k ·)
    | Option.none => Option.none

/-- the registered converters for builtin member types (what `self(data, member_type)` can resolve to) -/
def convBase (P : Prims) (E : Env) (f : Flags) (b : Base) (v : V) : Outcome V :=
  if typeEq v (.cls b 0) then .ok v else
  match b with
  | .int => toInteger P E f 0 v
  | .float => toFloat P E f 0 v
  | .str => toStr P E f 0 v
  | _ => .unmodelled "enum member type"

/-- the `try` body of `to_enum`: convert to the mixed-in member type, then look the value up -/
def enumBody (P : Prims) (E : Env) (f : Flags) (k : Nat) (d : EnumDecl) (v : V) : Outcome V :=
  match d.memberType with
  | some b => do
    let value ← convBase P E f b v
    enumCall E k value
  | Option.none => enumCall E k v

/-- the `except` branch of `to_enum`: without no_data_loss a str that is a member name gives that member,
otherwise the exception `o` is re-raised -/
def enumNameFallback (E : Env) (f : Flags) (k : Nat) (v : V) (o : Outcome V) : Outcome V :=
  match v with
  | .str _ name =>
    if !f.ndl then
      match enumByName E k name with
      | some r => .ok r
      | Option.none => o
    else o
  | _ => o

/-- `to_enum` :672-691 (with fix C12-enum-value-first: member names are a lenient fallback after the value
lookup, so a name never shadows another member's value) -/
def toEnum (P : Prims) (E : Env) (f : Flags) (k : Nat) (v : V) : Outcome V :=
  match v with
  | .enum k' _ => if k == k' then .ok v else
      (if f.nec then enumCall E k v else .unmodelled "member of another enum as input")
  | _ =>
    if f.nec then enumCall E k v else
    match E.enum? k with
    | Option.none => .unmodelled "no such enum"
    | some d =>
      match enumBody P E f k d v with
      | .ok r => .ok r
      | .perr e => enumNameFallback E f k v (.perr e)
      | .escape e => enumNameFallback E f k v (.escape e)
      | .diverge => .diverge
      | .unmodelled w => .unmodelled w

/-! ## resolution and the public entry points -/

inductive Conv where
  | null | str | bytes | array | dict | float | int | decimal | complex | bool
  | date | datetime | timedelta | time | uuid | enum | iter | mapping
  deriving DecidableEq, Repr

/-- `TypeTransformer.registry.resolve(t)` for the classes of `Target` (registration order and
`allow_subclasses` flags of transform.py:198-672; `to_null` and `to_date` do not take subclasses;
`to_bool` is registered after `to_integer`, `to_enum` last) -/
def resolve : Target → Option Conv
  | .cls .noneType 0 => some .null
  | .cls .noneType _ => Option.none
  | .cls .bool _ => some .bool
  | .cls .int _ => some .int
  | .cls .float _ => some .float
  | .cls .complex _ => some .complex
  | .cls .decimal _ => some .decimal
  | .cls .str _ => some .str
  | .cls .bytes _ => some .bytes
  | .cls .bytearray _ => some .bytes
  | .cls .memoryview _ => some .bytes
  | .cls .list _ => some .array
  | .cls .tuple _ => some .array
  | .cls .set _ => some .array
  | .cls .frozenset _ => some .array
  | .cls .deque _ => some .array
  | .cls .dict _ => some .dict
  | .cls .date 0 => some .date
  | .cls .date _ => Option.none
  | .cls .datetime _ => some .datetime
  | .cls .timedelta _ => some .timedelta
  | .cls .time _ => some .time
  | .cls .uuid _ => some .uuid
  | .enum _ => some .enum
  | .abc .mapping => some .mapping
  | .abc _ => some .iter
  | .obj _ => Option.none

/-- run the converter the registry resolved for `t` -/
def runConv (P : Prims) (E : Env) (f : Flags) (t : Target) (v : V) : Conv → Outcome V
  | .null => toNull f v
  | .str => toStr P E f (subOf t) v
  | .bytes => (match t with
    | .cls b c => (match b.bytesK? with | some k => toBytes P E f k c v | Option.none => .unmodelled "target")
    | _ => .unmodelled "target")
  | .array => (match t with
    | .cls b c => (match b.seqK? with | some k => toArray P f k c v | Option.none => .unmodelled "target")
    | _ => .unmodelled "target")
  | .dict => toDict P E f (subOf t) v
  | .float => toFloat P E f (subOf t) v
  | .int => toInteger P E f (subOf t) v
  | .decimal => toDecimal P E f (subOf t) v
  | .complex => toComplex P E f (subOf t) v
  | .bool => toBool P f v
  | .date => toDate P E f v
  | .datetime => toDatetime P E f (subOf t) false v
  | .timedelta => toTimedelta P E f (subOf t) v
  | .time => toTime P E f (subOf t) v
  | .uuid => toUuid P f (subOf t) v
  | .enum => (match t with | .enum k => toEnum P E f k v | _ => .unmodelled "target")
  | .iter => (match t with | .abc a => toIter P f a v | _ => .unmodelled "target")
  | .mapping => toMapping P E f v

/-- `handle_unresolved` :715-723 (`TypeMismatchError` is a TypeError) -/
def handleUnresolved (P : Prims) (u : Unresolved) (t : Target) (v : V) : Outcome V :=
  if isInstT v t then .ok v else
  match u with
  | .throw => .perr .typeError
  | .init => (match t with | .obj k => P.initObj k v | _ => .unmodelled "init of a builtin subclass")
  | .ignore => .ok v

/-- inputs the model covers: members of mixed-in enums (`class E(int, Enum)`) are instances of their member
type, which `isInst` does not know; they are modelled only as inputs of their own enum class -/
def modelledInput (E : Env) (t : Target) : V → Bool
  | .enum k _ =>
    match E.enum? k with
    | some d => d.memberType.isNone || t == .enum k
    | Option.none => false
  | _ => true

/-- `TypeTransformer.__call__` :737-748 (targets are classes: the ForwardRef branch is not reachable) -/
def transformU (P : Prims) (E : Env) (f : Flags) (u : Unresolved) (t : Target) (v : V) : Outcome V :=
  if typeEq v t then .ok v else
  if !modelledInput E t v then .unmodelled "member of a mixed-in enum as input" else
  match resolve t with
  | Option.none => handleUnresolved P u t v
  | some cv => runConv P E f t v cv

def transform (P : Prims) (E : Env) (f : Flags) (t : Target) (v : V) : Outcome V :=
  transformU P E f .throw t v

/-- `TypeTransformer.apply` :725-735: with a resolved `func` the exact-type shortcut, then the function -/
def apply (P : Prims) (E : Env) (f : Flags) (u : Unresolved) (t : Target) (func : Option Conv) (v : V) : Outcome V :=
  match func with
  | Option.none => transformU P E f u t v
  | some cv =>
    if typeEq v t then .ok v else
    if !modelledInput E t v then .unmodelled "member of a mixed-in enum as input" else
    runConv P E f t v cv

end Utv.Conv
