import Utv.Lemmas.C15Main
import Utv.Lemmas.C15Names
import Utv.Lemmas.C15Exact2
import Utv.Lemmas.C15Wide
/-!
C15 — types built from a JSON Schema never crash nor emit what the schema forbids.

`parse N s`        the parser model (`Utv/Model/C15.lean`), `none` = the build raises
`conforms R T j`   the contract of the built type on the JSON form of a value it returned
`validate C s j`   draft 2020-12 validation (`Utv/Model/JsonSchema.lean`, cross-checked against `jsonschema`)
`inFragment s`     the schemas the property quantifies over

Soundness is stated at full strength over all schemas of the fragment, all built types, all instances, all regex
oracles with `fullmatch ⊆ search`, all name environments; it is partial only in the decidable hypothesis
`oneOfAtMost` (`KnownDefect.oneOfOverlap` excluded), whose negation is witnessed below.
-/
set_option linter.unusedVariables false
namespace Utv.C15
open Utv.JsonSchema

/-! ### the induction over the schema document -/

/-- the induction hypotheses a member value carries: for itself as a schema, and for the schemas it lists -/
def DeepSound (N : Names) (R : Rx) (C : Ctx) (v : Json) : Prop :=
  SubSound N R C v ∧ (match v with
    | .arr ss => ∀ s ∈ ss, SubSound N R C s
    | .obj ps => ∀ p ∈ ps, SubSound N R C p.2
    | _ => True)

mutual
theorem sound_json (N : Names) (R : Rx) (hR : ∀ p x, R.full p x = true → R.search p x = true) (C : Ctx)
    (hC : C.search = R.search) : (s : Json) → SubSound N R C s
  | .obj kvs =>
    obj_ok N R hR C hC kvs
      (fun k v hm => (sound_members N R hR C hC kvs k v hm).1)
      (fun k ss hm => (sound_members N R hR C hC kvs k (.arr ss) hm).2)
      (fun k ps hm => (sound_members N R hR C hC kvs k (.obj ps) hm).2)
  | .null => fun T j hf => by simp [inFragment] at hf
  | .bool true => fun T j _ _ _ _ => by rw [validate]
  | .bool false => fun T j _ hp hc _ => by
      rw [parse] at hp; cases hp
      simp [Ty.never, conforms, conformsAny] at hc
  | .num _ => fun T j hf => by simp [inFragment] at hf
  | .str _ => fun T j hf => by simp [inFragment] at hf
  | .arr _ => fun T j hf => by simp [inFragment] at hf
termination_by structural s => s
theorem sound_members (N : Names) (R : Rx) (hR : ∀ p x, R.full p x = true → R.search p x = true) (C : Ctx)
    (hC : C.search = R.search) : (kws : List (String × Json)) → ∀ k v, (k, v) ∈ kws → DeepSound N R C v
  | [], k, v, hm => by simp at hm
  | (k', v') :: rest, k, v, hm =>
    (List.mem_cons.mp hm).elim
      (fun h =>
        have hv : v = v' := (Prod.mk.inj h).2
        hv ▸ ⟨sound_json N R hR C hC v', match v' with
          | .arr ss => sound_list N R hR C hC ss
          | .obj ps => sound_props N R hR C hC ps
          | .null => trivial
          | .bool _ => trivial
          | .num _ => trivial
          | .str _ => trivial⟩)
      (fun h => sound_members N R hR C hC rest k v h)
termination_by structural kws => kws
theorem sound_list (N : Names) (R : Rx) (hR : ∀ p x, R.full p x = true → R.search p x = true) (C : Ctx)
    (hC : C.search = R.search) : (ss : List Json) → ∀ s ∈ ss, SubSound N R C s
  | [], s, hm => by simp at hm
  | s' :: rest, s, hm =>
    (List.mem_cons.mp hm).elim
      (fun h => h ▸ sound_json N R hR C hC s')
      (fun h => sound_list N R hR C hC rest s h)
termination_by structural ss => ss
theorem sound_props (N : Names) (R : Rx) (hR : ∀ p x, R.full p x = true → R.search p x = true) (C : Ctx)
    (hC : C.search = R.search) : (ps : List (String × Json)) → ∀ p ∈ ps, SubSound N R C p.2
  | [], p, hm => by simp at hm
  | (n, s') :: rest, p, hm =>
    (List.mem_cons.mp hm).elim
      (fun h => h ▸ sound_json N R hR C hC s')
      (fun h => sound_props N R hR C hC rest p h)
termination_by structural ps => ps
end

/-! ### the property

Full statement (false of the parser as it stands, see `C15_oneof_overlap_witness`):

    theorem C15_sound : inFragment s → parse N s = some T → conforms R T j → validate C s j

What holds: the same with the decidable hypothesis that no `oneOf` the instance meets has two validating branches. -/

theorem C15_sound_partial (N : Names) (R : Rx) (hR : ∀ p x, R.full p x = true → R.search p x = true) (C : Ctx)
    (hC : C.search = R.search) (s : Json) (T : Ty) (j : Json)
    (hf : inFragmentW s = true) (hn : KnownDefect.emptyName s = false)
    (hp : parse N s = some T) (hc : conforms R T j = true)
    (hk : KnownDefect.oneOfOverlap C s j = false) : validate C s j = true :=
  sound_json N R hR C hC s T j (narrow_json s hf hn) hp hc (by simpa [KnownDefect.oneOfOverlap] using hk)

/-! schemas without `oneOf`: no hypothesis left -/

mutual
def oneOfFree (s : Json) : Bool :=
  match s with
  | .obj kvs => oneOfFreeKws kvs
  | _ => true
termination_by structural s
def oneOfFreeKws (kws : List (String × Json)) : Bool :=
  match kws with
  | [] => true
  | (k, v) :: rest => k != "oneOf" && oneOfFreeIn v && oneOfFreeKws rest
termination_by structural kws
/-- in a member value: a schema, a list of schemas, or a map of schemas -/
def oneOfFreeIn (v : Json) : Bool :=
  match v with
  | .obj kvs => oneOfFreeKws kvs && oneOfFreeMap kvs
  | .arr ss => oneOfFreeList ss
  | _ => true
termination_by structural v
def oneOfFreeList (ss : List Json) : Bool :=
  match ss with
  | [] => true
  | s :: rest => oneOfFree s && oneOfFreeList rest
termination_by structural ss
def oneOfFreeMap (ps : List (String × Json)) : Bool :=
  match ps with
  | [] => true
  | (_, s) :: rest => oneOfFree s && oneOfFreeMap rest
termination_by structural ps
end

open KnownDefect in
theorem oneOfAtMost_of_not_obj (C : Ctx) (s j : Json) (h : ∀ kvs, s ≠ .obj kvs) : oneOfAtMost C s j = true := by
  cases s with
  | obj kvs => exact absurd rfl (h kvs)
  | _ => rw [oneOfAtMost]; intro kvs e; cases e

open KnownDefect in
theorem oneOfList_free (C : Ctx) (j : Json) : (ss : List Json) → (∀ s ∈ ss, ∀ x, oneOfAtMost C s x = true) → oneOfList C ss j = true
  | [], _ => by rw [oneOfList]
  | s :: rest, h => by
    rw [oneOfList]
    simp only [Bool.and_eq_true]
    exact ⟨h s (by simp) j, oneOfList_free C j rest fun s' hs' => h s' (List.mem_cons_of_mem _ hs')⟩

open KnownDefect in
theorem oneOfZip_free (C : Ctx) : (ss xs : List Json) → (∀ s ∈ ss, ∀ x, oneOfAtMost C s x = true) → oneOfZip C ss xs = true
  | [], _, _ => by rw [oneOfZip]
  | s :: rest, [], _ => by rw [oneOfZip]
  | s :: rest, x :: xs, h => by
    rw [oneOfZip]
    simp only [Bool.and_eq_true]
    exact ⟨h s (by simp) x, oneOfZip_free C rest xs fun s' hs' => h s' (List.mem_cons_of_mem _ hs')⟩

open KnownDefect in
theorem oneOfProps_free (C : Ctx) (o : Obj) : (ps : List (String × Json)) → (∀ p ∈ ps, ∀ x, oneOfAtMost C p.2 x = true) →
    oneOfProps C ps o = true
  | [], _ => by rw [oneOfProps]
  | (n, s) :: rest, h => by
    rw [oneOfProps]
    simp only [Bool.and_eq_true]
    refine ⟨?_, oneOfProps_free C o rest fun p hp => h p (List.mem_cons_of_mem _ hp)⟩
    cases lookup n o with
    | none => rfl
    | some x => exact h (n, s) (by simp) x

open KnownDefect in
/-- one member that is not `oneOf`, all of whose sub-schemas are free of overlaps -/
theorem oneOfEntry_free (C : Ctx) (all : Obj) (k : String) (v j : Json) (hk : (k == "oneOf") = false)
    (hself : ∀ x, oneOfAtMost C v x = true)
    (hlist : ∀ ss, v = .arr ss → ∀ s ∈ ss, ∀ x, oneOfAtMost C s x = true)
    (hmap : ∀ ps, v = .obj ps → ∀ p ∈ ps, ∀ x, oneOfAtMost C p.2 x = true) : oneOfEntry C all k v j = true := by
  simp only [oneOfEntry, hk, Bool.false_eq_true, if_false]
  by_cases h1 : (k == "anyOf" || k == "allOf") = true
  · simp only [h1, if_true]
    cases v with
    | arr ss => exact oneOfList_free C j ss (hlist ss rfl)
    | _ => rfl
  · simp only [h1, Bool.false_eq_true, if_false]
    by_cases h2 : (k == "items") = true
    · simp only [h2, if_true]
      cases j with
      | arr xs => exact List.all_eq_true.mpr fun x _ => hself x
      | _ => rfl
    · simp only [h2, Bool.false_eq_true, if_false]
      by_cases h3 : (k == "prefixItems") = true
      · simp only [h3, if_true]
        cases v with
        | arr ss =>
          cases j with
          | arr xs => exact oneOfZip_free C ss xs (hlist ss rfl)
          | _ => rfl
        | _ => rfl
      · simp only [h3, Bool.false_eq_true, if_false]
        by_cases h4 : (k == "properties") = true
        · simp only [h4, if_true]
          cases v with
          | obj ps =>
            cases j with
            | obj o => exact oneOfProps_free C o ps (hmap ps rfl)
            | _ => rfl
          | _ => rfl
        · simp only [h4, Bool.false_eq_true, if_false]
          by_cases h5 : (k == "additionalProperties") = true
          · simp only [h5, if_true]
            cases j with
            | obj o => exact List.all_eq_true.mpr fun m _ => hself m.2
            | _ => rfl
          · simp only [h5, Bool.false_eq_true, if_false]

open KnownDefect in
mutual
theorem free_json (C : Ctx) : (s : Json) → oneOfFree s = true → ∀ j, oneOfAtMost C s j = true
  | .obj kvs, h, j => by
    rw [oneOfFree] at h
    rw [oneOfAtMost]
    exact free_kws C kvs kvs h j
  | .null, _, j => oneOfAtMost_of_not_obj C _ j (by intro kvs e; cases e)
  | .bool _, _, j => oneOfAtMost_of_not_obj C _ j (by intro kvs e; cases e)
  | .num _, _, j => oneOfAtMost_of_not_obj C _ j (by intro kvs e; cases e)
  | .str _, _, j => oneOfAtMost_of_not_obj C _ j (by intro kvs e; cases e)
  | .arr _, _, j => oneOfAtMost_of_not_obj C _ j (by intro kvs e; cases e)
termination_by structural s => s
theorem free_kws (C : Ctx) (all : Obj) : (kws : List (String × Json)) → oneOfFreeKws kws = true → ∀ j, oneOfKws C all kws j = true
  | [], _, j => by rw [oneOfKws]
  | (k, v) :: rest, h, j =>
    have hk : (k == "oneOf") = false := by
      rw [oneOfFreeKws] at h
      simp only [Bool.and_eq_true, bne_iff_ne, ne_eq] at h
      simpa using h.1.1
    have hv : oneOfFreeIn v = true := by
      rw [oneOfFreeKws] at h
      simp only [Bool.and_eq_true] at h
      exact h.1.2
    have hr : oneOfFreeKws rest = true := by
      rw [oneOfFreeKws] at h
      simp only [Bool.and_eq_true] at h
      exact h.2
    have hentry : oneOfEntry C all k v j = true :=
      match v, hv with
      | .obj kvs, hv =>
        have h1 : oneOfFreeKws kvs = true ∧ oneOfFreeMap kvs = true := by
          rw [oneOfFreeIn] at hv
          simpa [Bool.and_eq_true] using hv
        oneOfEntry_free C all k (.obj kvs) j hk
          (fun x => by rw [oneOfAtMost]; exact free_kws C kvs kvs h1.1 x)
          (fun ss e => by cases e)
          (fun ps e => by cases e; exact free_map C kvs h1.2)
      | .arr ss, hv =>
        oneOfEntry_free C all k (.arr ss) j hk
          (fun x => oneOfAtMost_of_not_obj C _ x (by intro kvs e; cases e))
          (fun ss' e => by cases e; exact free_list C ss (by rw [oneOfFreeIn] at hv; exact hv))
          (fun ps e => by cases e)
      | .null, _ => oneOfEntry_free C all k .null j hk (fun x => oneOfAtMost_of_not_obj C _ x (by intro kvs e; cases e)) (fun _ e => by cases e) (fun _ e => by cases e)
      | .bool b, _ => oneOfEntry_free C all k (.bool b) j hk (fun x => oneOfAtMost_of_not_obj C _ x (by intro kvs e; cases e)) (fun _ e => by cases e) (fun _ e => by cases e)
      | .num n, _ => oneOfEntry_free C all k (.num n) j hk (fun x => oneOfAtMost_of_not_obj C _ x (by intro kvs e; cases e)) (fun _ e => by cases e) (fun _ e => by cases e)
      | .str t, _ => oneOfEntry_free C all k (.str t) j hk (fun x => oneOfAtMost_of_not_obj C _ x (by intro kvs e; cases e)) (fun _ e => by cases e) (fun _ e => by cases e)
    by
      rw [oneOfKws_cons]
      simp only [Bool.and_eq_true]
      exact ⟨hentry, free_kws C all rest hr j⟩
termination_by structural kws => kws
theorem free_list (C : Ctx) : (ss : List Json) → oneOfFreeList ss = true → ∀ s ∈ ss, ∀ j, oneOfAtMost C s j = true
  | [], _, s, hm, _ => by simp at hm
  | s' :: rest, h, s, hm, j =>
    have h' : oneOfFree s' = true ∧ oneOfFreeList rest = true := by
      rw [oneOfFreeList] at h
      simpa [Bool.and_eq_true] using h
    (List.mem_cons.mp hm).elim (fun e => e ▸ free_json C s' h'.1 j) (fun e => free_list C rest h'.2 s e j)
termination_by structural ss => ss
theorem free_map (C : Ctx) : (ps : List (String × Json)) → oneOfFreeMap ps = true → ∀ p ∈ ps, ∀ j, oneOfAtMost C p.2 j = true
  | [], _, p, hm, _ => by simp at hm
  | (n, s') :: rest, h, p, hm, j =>
    have h' : oneOfFree s' = true ∧ oneOfFreeMap rest = true := by
      rw [oneOfFreeMap] at h
      simpa [Bool.and_eq_true] using h
    (List.mem_cons.mp hm).elim (fun e => e ▸ free_json C s' h'.1 j) (fun e => free_map C rest h'.2 p e j)
termination_by structural ps => ps
end

/-- for schemas that do not use `oneOf` the property holds as stated -/
theorem C15_sound_without_oneOf (N : Names) (R : Rx) (hR : ∀ p x, R.full p x = true → R.search p x = true) (C : Ctx)
    (hC : C.search = R.search) (s : Json) (T : Ty) (j : Json)
    (hf : inFragmentW s = true) (hn : KnownDefect.emptyName s = false) (hfree : oneOfFree s = true)
    (hp : parse N s = some T) (hc : conforms R T j = true) :
    validate C s j = true :=
  sound_json N R hR C hC s T j (narrow_json s hf hn) hp hc (free_json C s hfree j)

/-! ### the full statement is false of the parser: a value the built type accepts, the schema forbids -/

/-- a name environment with Python's suffix `'_' + str(i)` (`pySfx`, injective: `pySfx_inj`) -/
def N0 : Names := ⟨fun _ => true, ["items", "keys", "copy"], pySfx⟩
def R0 : Rx := ⟨fun _ _ => true, fun _ _ => true⟩
def C0 : Ctx := ⟨R0.search, fun _ _ => false⟩


/-- `{"oneOf": [{"maxLength": 2}, {"type": "integer"}]}`: built as `Rule[str](max_length=2) ^ int`; 5 is accepted by
exactly one branch *type*, but both branch *schemas* validate 5 (maxLength says nothing about numbers) -/
def witnessSchema : Json := .obj [("oneOf", .arr [.obj [("maxLength", .num ⟨2, 0⟩)], .obj [("type", .str "integer")]])]

theorem C15_oneof_overlap_witness :
    ∃ T, inFragmentW witnessSchema = true ∧ KnownDefect.emptyName witnessSchema = false ∧ parse N0 witnessSchema = some T ∧ conforms R0 T (.num ⟨5, 0⟩) = true ∧
      validate C0 witnessSchema (.num ⟨5, 0⟩) = false ∧ KnownDefect.oneOfOverlap C0 witnessSchema (.num ⟨5, 0⟩) = true :=
  ⟨.logic .one [.rule (.prim .str) [("max_length", .num ⟨2, 0⟩)], .prim .int], by decide, by decide, rfl, by decide, by decide, by decide⟩

/-! ### the hypotheses are satisfiable, and the validator tells instances apart -/

/-- an object with an unusable property name, a required member that is only mentioned, a typed additional
type, a tuple, a oneOf whose branches do not overlap, and a typeless enum -/
def sampleSchema : Json :=
  .obj [("type", .str "object"),
        ("properties", .obj [("items", .obj [("type", .str "array"), ("prefixItems", .arr [.obj [("type", .str "integer"), ("minimum", .num ⟨2, 0⟩)]]),
                                            ("items", .bool false)]),
                             ("a-b", .obj [("oneOf", .arr [.obj [("type", .str "string"), ("maxLength", .num ⟨3, 0⟩)], .obj [("type", .str "null")]])]),
                             ("k", .obj [("enum", .arr [.str "x", .str "y"])])]),
        ("required", .arr [.str "items", .str "z"]),
        ("additionalProperties", .obj [("type", .str "boolean")]),
        ("minProperties", .num ⟨2, 0⟩)]

def sampleValue : Json :=
  .obj [("items", .arr [.num ⟨3, 0⟩]), ("a-b", .str "abc"), ("k", .str "y"), ("z", .bool true)]

example : ∃ T, inFragmentW sampleSchema = true ∧ KnownDefect.emptyName sampleSchema = false ∧
    parse N0 sampleSchema = some T ∧ conforms R0 T sampleValue = true ∧
    KnownDefect.oneOfOverlap C0 sampleSchema sampleValue = false ∧ oneOfFree sampleSchema = false := by
  refine ⟨_, by decide, by decide, rfl, by decide, by decide, by decide⟩

/-- the conclusion is not trivial: the same schema rejects a value whose tuple item is below the minimum -/
example : validate C0 sampleSchema sampleValue = true ∧
    validate C0 sampleSchema (.obj [("items", .arr [.num ⟨1, 0⟩]), ("z", .bool true)]) = false := by
  constructor <;> decide

/-- and the contract does too: that value does not conform to the built type -/
example : (parse N0 sampleSchema).map (fun T => conforms R0 T (.obj [("items", .arr [.num ⟨1, 0⟩]), ("z", .bool true)])) = some false := by
  decide

/-! ### where the run-time is known to break the contract (`findings.d/C15.json`): values the real code returns
(replayed from `harness/corpus/C15.jsonl` on every run) that do not conform to the type the parser built -/

/-- `conj-converts-kind`: `{"allOf":[{"type":"boolean"},{"type":"number"}]}` returns 1.0 for true -/
theorem C15_contract_conj_witness :
    parse N0 (.obj [("allOf", .arr [.obj [("type", .str "boolean")], .obj [("type", .str "number")]])]) =
      some (.logic .all [.prim .bool, .prim .float]) ∧
    conforms R0 (.logic .all [.prim .bool, .prim .float]) (.num ⟨10, 1⟩) = false ∧
    KnownDefect.kindMix (.logic .all [.prim .bool, .prim .float]) = true := by
  refine ⟨rfl, by decide, by decide⟩

/-- `enum-bool-number`: `{"type":"boolean","enum":[1]}` returns true -/
theorem C15_contract_enum_witness :
    conforms R0 (.rule (.prim .bool) [("enum", .arr [.num ⟨1, 0⟩])]) (.bool true) = false ∧
    KnownDefect.enumBoolNum (.rule (.prim .bool) [("enum", .arr [.num ⟨1, 0⟩])]) = true := by
  refine ⟨by decide, by decide⟩

/-- `max-properties-zero`: `{"type":"object","properties":{"a":{}},"maxProperties":0}` returns {"a": 1} -/
theorem C15_contract_maxprops_witness :
    conforms R0 (.data [.mk "a" "a" .any false []] .free .any none (some ⟨0, 0⟩)) (.obj [("a", .num ⟨1, 0⟩)]) = false ∧
    KnownDefect.maxPropsZero (.data [.mk "a" "a" .any false []] .free .any none (some ⟨0, 0⟩)) = true := by
  refine ⟨by decide, by decide⟩

/-- `empty-property-name`: `{"type":"object","properties":{"":{"type":"integer"}}}` is in the (wide) fragment; the
real class returns `{"": "x"}` (the member is additional: `Field(alias='')` is no alias), which neither conforms
to the class the parser means nor validates -/
theorem C15_contract_emptyname_witness :
    inFragmentW (.obj [("type", .str "object"), ("properties", .obj [("", .obj [("type", .str "integer")])])]) = true ∧
    KnownDefect.emptyName (.obj [("type", .str "object"), ("properties", .obj [("", .obj [("type", .str "integer")])])]) = true ∧
    (parse N0 (.obj [("type", .str "object"), ("properties", .obj [("", .obj [("type", .str "integer")])])])).map
      (fun T => conforms R0 T (.obj [("", .str "x")])) = some false ∧
    validate C0 (.obj [("type", .str "object"), ("properties", .obj [("", .obj [("type", .str "integer")])])])
      (.obj [("", .str "x")]) = false := by
  refine ⟨by decide, by decide, by decide, by decide⟩

/-! ### building succeeds

Full statement (false of `Rule` as it stands, see `C15_degenerate_witness`):

    theorem C15_builds : inFragment s → (parse N s).isSome

What holds, exactly: a schema of the fragment builds iff it is not `KnownDefect.degenerate` — iff no `Rule` the parser
declares for a schema object it reaches is refused by `Rule`'s declaration checks (an inclusive next to an exclusive
bound, lower ≥ upper, an int next to a float bound, two exclusive integer bounds with no two integers between them, a
float bound on a Decimal, an upper size bound of 0 or below the lower one or not written as an integer, more items
required than a closed tuple has, a const that is not an instance of the class built for the type).  Nothing else —
not the member types, not the property names, not the combinators — can make a build raise. -/

/-- the induction hypotheses a member value carries for building -/
def DeepBuilds (N : Names) (v : Json) : Prop :=
  BuildsIff N v ∧ (match v with
    | .arr ss => ∀ s ∈ ss, BuildsIff N s
    | .obj ps => ∀ p ∈ ps, BuildsIff N p.2
    | _ => True)

mutual
theorem builds_json (N : Names) : (s : Json) → BuildsIff N s
  | .obj kvs =>
    obj_builds_iff N kvs
      (fun k v hm => (builds_members N kvs k v hm).1)
      (fun k ss hm => (builds_members N kvs k (.arr ss) hm).2)
      (fun k ps hm => (builds_members N kvs k (.obj ps) hm).2)
  | .bool true => fun _ => by rw [parse, KnownDefect.degenerate]; simp; intro ps h; cases h
  | .bool false => fun _ => by rw [parse, KnownDefect.degenerate]; simp; intro ps h; cases h
  | .null => fun hf => by simp [inFragment] at hf
  | .num _ => fun hf => by simp [inFragment] at hf
  | .str _ => fun hf => by simp [inFragment] at hf
  | .arr _ => fun hf => by simp [inFragment] at hf
termination_by structural s => s
theorem builds_members (N : Names) : (kws : List (String × Json)) → ∀ k v, (k, v) ∈ kws → DeepBuilds N v
  | [], k, v, hm => by simp at hm
  | (k', v') :: rest, k, v, hm =>
    (List.mem_cons.mp hm).elim
      (fun h =>
        have hv : v = v' := (Prod.mk.inj h).2
        hv ▸ ⟨builds_json N v', match v' with
          | .arr ss => builds_list N ss
          | .obj ps => builds_props N ps
          | .null => trivial
          | .bool _ => trivial
          | .num _ => trivial
          | .str _ => trivial⟩)
      (fun h => builds_members N rest k v h)
termination_by structural kws => kws
theorem builds_list (N : Names) : (ss : List Json) → ∀ s ∈ ss, BuildsIff N s
  | [], s, hm => by simp at hm
  | s' :: rest, s, hm =>
    (List.mem_cons.mp hm).elim
      (fun h => h ▸ builds_json N s')
      (fun h => builds_list N rest s h)
termination_by structural ss => ss
theorem builds_props (N : Names) : (ps : List (String × Json)) → ∀ p ∈ ps, BuildsIff N p.2
  | [], p, hm => by simp at hm
  | (n, s') :: rest, p, hm =>
    (List.mem_cons.mp hm).elim
      (fun h => h ▸ builds_json N s')
      (fun h => builds_props N rest p h)
termination_by structural ps => ps
end

/-- building succeeds exactly on the schemas no reachable part of which `Rule` refuses to declare -/
theorem C15_builds_iff (N : Names) (s : Json) (hf : inFragmentW s = true) (hn : KnownDefect.emptyName s = false) :
    (parse N s).isSome = true ↔ KnownDefect.degenerate s = false :=
  builds_json N s (narrow_json s hf hn)

theorem C15_builds_partial (N : Names) (s : Json) (hf : inFragmentW s = true) (hn : KnownDefect.emptyName s = false)
    (hk : KnownDefect.degenerate s = false) : (parse N s).isSome = true :=
  (C15_builds_iff N s hf hn).mpr hk

/-- `{"type": "integer", "minimum": 3, "maximum": 3}` — satisfiable (by 3), in the fragment, and `Rule` refuses it
("lt/le must > gt/ge") -/
theorem C15_degenerate_witness :
    inFragmentW (.obj [("type", .str "integer"), ("minimum", .num ⟨3, 0⟩), ("maximum", .num ⟨3, 0⟩)]) = true ∧
    parse N0 (.obj [("type", .str "integer"), ("minimum", .num ⟨3, 0⟩), ("maximum", .num ⟨3, 0⟩)]) = none ∧
    validate C0 (.obj [("type", .str "integer"), ("minimum", .num ⟨3, 0⟩), ("maximum", .num ⟨3, 0⟩)]) (.num ⟨3, 0⟩) = true ∧
    KnownDefect.degenerate (.obj [("type", .str "integer"), ("minimum", .num ⟨3, 0⟩), ("maximum", .num ⟨3, 0⟩)]) = true := by
  refine ⟨by decide, rfl, by decide, by decide⟩

/-- `degenerate` is no wider than what `Rule` refuses: adjacent integer bounds, bounds on a string, a zero
`maxLength` on an integer, `minProperties` above `maxProperties` on a class all build, and are not degenerate -/
example : KnownDefect.degenerate sampleSchema = false ∧
    KnownDefect.degenerate (.obj [("type", .str "integer"), ("minimum", .num ⟨0, 0⟩), ("maximum", .num ⟨1, 0⟩)]) = false ∧
    KnownDefect.degenerate (.obj [("type", .str "string"), ("minimum", .num ⟨3, 0⟩), ("maximum", .num ⟨3, 0⟩)]) = false ∧
    KnownDefect.degenerate (.obj [("type", .str "integer"), ("maxLength", .num ⟨0, 0⟩)]) = false ∧
    KnownDefect.degenerate (.obj [("type", .str "object"), ("properties", .obj [("a", .obj [])]),
      ("minProperties", .num ⟨2, 0⟩), ("maxProperties", .num ⟨1, 0⟩)]) = false ∧
    KnownDefect.degenerate (.obj [("type", .str "string"), ("items", .obj [("minimum", .num ⟨3, 0⟩), ("maximum", .num ⟨3, 0⟩)])]) = false := by
  refine ⟨by decide, by decide, by decide, by decide, by decide, by decide⟩

/-! ### attribute names -/

def fieldAttrs : Ty → List String
  | .data fields _ _ _ _ => fields.map Fld.attname
  | _ => []

theorem mkFields_attnames (req : List String) (deps : Obj) : (props : List (String × Ty)) → (attnames : List String) →
    attnames.length = props.length → (mkFields props attnames req deps).map Fld.attname = attnames
  | [], [], _ => by simp [mkFields]
  | [], a :: as, hl => by simp at hl
  | (n, t) :: ps, [], hl => by simp at hl
  | (n, t) :: ps, a :: as, hl => by
    simp [mkFields, Fld.attname, mkFields_attnames req deps ps as (by simpa using hl)]

/-- the attributes of a class built for an object schema are distinct, none of them is an attribute of the base
class (`items`, `keys`, … — `dir(Schema)`), and a renamed one is not the name of another property:
for every name environment in which `'_' + str(i)` is injective -/
theorem C15_class_attributes (N : Names) (hinj : ∀ o a b, o ++ N.sfx a = o ++ N.sfx b → a = b) (kvs : Obj)
    (props : List (String × Ty)) (addK : AddK) (addTy : Ty) :
    (fieldAttrs (objectClass N kvs props addK addTy)).Nodup ∧
    ∀ a ∈ fieldAttrs (objectClass N kvs props addK addTy), a ∉ N.reserved := by
  have hlen : (assignAttnames N (props.map (·.1)) (props.map (·.1)) []).length = props.length := by
    rw [assignAttnames_length]; simp
  have := assignAttnames_fresh N hinj (props.map (·.1)) (props.map (·.1)) []
  simp only [objectClass, fieldAttrs, mkFields_attnames _ _ props _ hlen]
  exact ⟨this.2, fun a ha => (this.1 a ha).2⟩

theorem C15_attname_not_other_key (N : Names) (hinj : ∀ o a b, o ++ N.sfx a = o ++ N.sfx b → a = b)
    (taken allKeys : List String) (key other : String) (ho : other ∈ allKeys) (hne : other ≠ key) :
    attnameFor N taken allKeys key ≠ other := by
  intro h
  apply attnameFor_fresh N hinj taken allKeys key
  rw [h]
  simp [ho, hne]

/-- the hypothesis of the two theorems above is met by Python's own suffix (and by `N0`) -/
theorem C15_class_attributes_py (N : Names) (hs : N.sfx = pySfx) (kvs : Obj) (props : List (String × Ty)) (addK : AddK)
    (addTy : Ty) :
    (fieldAttrs (objectClass N kvs props addK addTy)).Nodup ∧
    ∀ a ∈ fieldAttrs (objectClass N kvs props addK addTy), a ∉ N.reserved :=
  C15_class_attributes N (by rw [hs]; exact pySfx_inj) kvs props addK addTy

example : ∀ o a b, o ++ N0.sfx a = o ++ N0.sfx b → a = b := pySfx_inj

/-- the attribute chosen for a property is an attribute name: either the property's own name, which then passes
Python's own test (`str.isidentifier`, no keyword) and does not start with `_`, or a generated one, which is an ASCII
identifier starting with a letter and no keyword — whatever the name was (`"1x"`, `"a-b"`, `"_a"`, `"class"`, `"-"`) -/
theorem C15_attname_is_attribute (N : Names) (hs : N.sfx = pySfx) (taken allKeys : List String) (key : String) :
    (attnameFor N taken allKeys key = key ∧ validAttr N key = true ∧ key.startsWith "_" = false) ∨
    AsciiAttr (attnameFor N taken allKeys key) := by
  unfold attnameFor
  simp only
  by_cases h : (!validAttr N key || key.startsWith "_" ||
      (taken ++ allKeys.filter (· != key) ++ N.reserved).contains key) = true
  · right
    rw [if_pos h, hs]
    exact getAttname_attr key _
  · left
    rw [if_neg h]
    have h' := (Bool.not_eq_true _).mp h
    rw [Bool.or_eq_false_iff, Bool.or_eq_false_iff] at h'
    exact ⟨rfl, by simpa using h'.1.1, h'.1.2⟩

/-- `C15_sound_without_oneOf` is not vacuous: a schema without oneOf, a type, a conforming value -/
example : ∃ T, inFragmentW (.obj [("type", .str "array"), ("items", .obj [("type", .str "integer"), ("minimum", .num ⟨2, 0⟩)]),
      ("anyOf", .arr [.obj [("maxItems", .num ⟨2, 0⟩)], .bool false])]) = true ∧
    oneOfFree (.obj [("type", .str "array"), ("items", .obj [("type", .str "integer"), ("minimum", .num ⟨2, 0⟩)]),
      ("anyOf", .arr [.obj [("maxItems", .num ⟨2, 0⟩)], .bool false])]) = true ∧
    parse N0 (.obj [("type", .str "array"), ("items", .obj [("type", .str "integer"), ("minimum", .num ⟨2, 0⟩)]),
      ("anyOf", .arr [.obj [("maxItems", .num ⟨2, 0⟩)], .bool false])]) = some T ∧
    conforms R0 T (.arr [.num ⟨3, 0⟩]) = true := by
  refine ⟨_, by decide, by decide, rfl, by decide⟩

end Utv.C15
