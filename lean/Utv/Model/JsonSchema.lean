/-
JSON values and a JSON-Schema (draft 2020-12) instance validator — the *specification* side of C13
("every value the parser produces validates against the generated schema") and C15 ("types built
from a schema are sound w.r.t. the schema").  Core Lean only; own small JSON datatype.

Vocabulary covered = the keywords utype's generator can emit or its parser accepts
(`utype/specs/json_schema/constant.py`, `generator.py`, `parser.py`):
  type enum const multipleOf maximum exclusiveMaximum minimum exclusiveMinimum maxLength minLength
  pattern maxItems minItems uniqueItems contains minContains maxContains maxProperties minProperties
  required dependentRequired properties patternProperties additionalProperties items prefixItems
  allOf anyOf oneOf not $ref ($defs / definitions are containers, not assertions).
Every other keyword (format, title, description, deprecated, readOnly, writeOnly, examples, x-*,
decimalPlaces, maxDigits, length …) is an annotation: it never makes an instance invalid.  This is
what the `jsonschema` library does with its default (non-asserting) format checker; the harness
cross-checks `validate` against `Draft202012Validator` on every run.

Two things are parameters (`Ctx`), because they are not JSON Schema's business:
  * `search pat s`   — does regular expression `pat` match somewhere in `s` (ECMA-262 `search`);
  * `ref r inst`     — does `inst` validate against the schema the reference `r` points to.
`validateRoot` instantiates `ref` with a fuel-bounded lookup in the root document's `$defs`.

Numbers are exact decimals `mant / 10^exp` (every IEEE double and every Python int is one), so
`1` and `1.0` are the same number, as JSON Schema demands.
-/
namespace Utv.JsonSchema

/-! ### numbers -/

structure Num where
  mant : Int
  exp : Nat
  deriving Repr, DecidableEq, Inhabited

namespace Num
def ofInt (i : Int) : Num := ⟨i, 0⟩
def ofNat (n : Nat) : Num := ⟨n, 0⟩
/-- `a ≤ b` by cross-multiplication (denominators are positive) -/
def le (a b : Num) : Bool := decide (a.mant * 10 ^ b.exp ≤ b.mant * 10 ^ a.exp)
def lt (a b : Num) : Bool := decide (a.mant * 10 ^ b.exp < b.mant * 10 ^ a.exp)
def eq (a b : Num) : Bool := decide (a.mant * 10 ^ b.exp = b.mant * 10 ^ a.exp)
/-- the value is an integer -/
def isInt (a : Num) : Bool := a.mant % (10 ^ a.exp : Int) == 0
/-- `a / d` is an integer (`d ≠ 0`); a zero divisor divides nothing (the metaschema forbids it) -/
def divisible (a d : Num) : Bool :=
  d.mant != 0 && (a.mant * 10 ^ d.exp) % (d.mant * 10 ^ a.exp) == 0
def isNonNegInt (a : Num) : Bool := a.isInt && decide (0 ≤ a.mant)
def isPos (a : Num) : Bool := decide (0 < a.mant)
end Num

/-! ### JSON -/

inductive Json where
  | null
  | bool (b : Bool)
  | num (n : Num)
  | str (s : String)
  | arr (xs : List Json)
  | obj (kvs : List (String × Json))
  deriving Repr, Inhabited

abbrev Obj := List (String × Json)

def lookup (k : String) : Obj → Option Json
  | [] => none
  | (k', v) :: rest => if k' == k then some v else lookup k rest

def hasKey (k : String) (o : Obj) : Bool := (lookup k o).isSome

def keys (o : Obj) : List String := o.map (·.1)

mutual
/-- JSON equality as JSON Schema defines it for `const` / `enum` / `uniqueItems`: numbers by value,
objects regardless of member order, booleans are not numbers. -/
def Json.eqv : Json → Json → Bool
  | .null, .null => true
  | .bool a, .bool b => a == b
  | .num a, .num b => a.eq b
  | .str a, .str b => a == b
  | .arr xs, .arr ys => eqvList xs ys
  | .obj a, .obj b => a.length == b.length && eqvObj a b
  | _, _ => false
def eqvList : List Json → List Json → Bool
  | [], [] => true
  | x :: xs, y :: ys => x.eqv y && eqvList xs ys
  | _, _ => false
/-- every member of the first object has an equal member in the second -/
def eqvObj : List (String × Json) → Obj → Bool
  | [], _ => true
  | (k, v) :: rest, other =>
    (match lookup k other with
     | some v' => v.eqv v'
     | none => false) && eqvObj rest other
end

def memEqv (x : Json) (xs : List Json) : Bool := xs.any (fun y => y.eqv x)

def allDistinct : List Json → Bool
  | [] => true
  | x :: xs => !memEqv x xs && allDistinct xs

def strDistinct : List String → Bool
  | [] => true
  | x :: xs => !xs.contains x && strDistinct xs

/-! ### the seven primitive types -/

def primitiveNames : List String := ["null", "boolean", "object", "array", "integer", "number", "string"]

def typeIs (name : String) (i : Json) : Bool :=
  match i with
  | .null => name == "null"
  | .bool _ => name == "boolean"
  | .obj _ => name == "object"
  | .arr _ => name == "array"
  | .str _ => name == "string"
  | .num n => name == "number" || (name == "integer" && n.isInt)

structure Ctx where
  search : String → String → Bool
  ref : String → Json → Bool

/-! ### assertion keywords that look at one instance only -/

def strOf : Json → Option String
  | .str s => some s
  | _ => none

def requiredOk (names : List Json) (o : Obj) : Bool :=
  names.all fun n => match n with
    | .str n => hasKey n o
    | _ => true

def checkType (v i : Json) : Bool :=
  match v with
  | .str t => typeIs t i
  | .arr ts => ts.any fun t => match t with
    | .str t => typeIs t i
    | _ => false
  | _ => true

/-- a numeric bound keyword: `rel bound value` must hold when both are numbers -/
def numKw (rel : Num → Num → Bool) (v i : Json) : Bool :=
  match v with
  | .num b => (match i with
    | .num n => rel b n
    | _ => true)
  | _ => true

/-- a size keyword: `rel bound size` when the bound is a number and the instance has a size -/
def sizeKw (size : Json → Option Nat) (rel : Num → Num → Bool) (v i : Json) : Bool :=
  match v with
  | .num b => (match size i with
    | some n => rel b (Num.ofNat n)
    | none => true)
  | _ => true

def strSize : Json → Option Nat
  | .str s => some s.length
  | _ => none
def arrSize : Json → Option Nat
  | .arr xs => some xs.length
  | _ => none
def objSize : Json → Option Nat
  | .obj o => some o.length
  | _ => none

def kEnum (v i : Json) : Bool :=
  match v with
  | .arr vs => memEqv i vs
  | _ => true

def kPattern (C : Ctx) (v i : Json) : Bool :=
  match v with
  | .str p => (match i with
    | .str s => C.search p s
    | _ => true)
  | _ => true

def kUnique (v i : Json) : Bool :=
  match v with
  | .bool true => (match i with
    | .arr xs => allDistinct xs
    | _ => true)
  | _ => true

def kRequired (v i : Json) : Bool :=
  match v with
  | .arr names => (match i with
    | .obj o => requiredOk names o
    | _ => true)
  | _ => true

def depOk (o : Obj) (d : String × Json) : Bool :=
  !hasKey d.1 o || (match d.2 with
    | .arr names => requiredOk names o
    | _ => true)

def kDependentRequired (v i : Json) : Bool :=
  match v with
  | .obj deps => (match i with
    | .obj o => deps.all (depOk o)
    | _ => true)
  | _ => true

/-- keywords without sub-schemas; `true` for every keyword that is not an assertion or does not
apply to this kind of instance -/
def checkSimple (C : Ctx) (k : String) (v i : Json) : Bool :=
  if k == "type" then checkType v i
  else if k == "enum" then kEnum v i
  else if k == "const" then v.eqv i
  else if k == "multipleOf" then numKw (fun d n => n.divisible d) v i
  else if k == "maximum" then numKw (fun b n => n.le b) v i
  else if k == "exclusiveMaximum" then numKw (fun b n => n.lt b) v i
  else if k == "minimum" then numKw (fun b n => b.le n) v i
  else if k == "exclusiveMinimum" then numKw (fun b n => b.lt n) v i
  else if k == "maxLength" then sizeKw strSize (fun b n => n.le b) v i
  else if k == "minLength" then sizeKw strSize (fun b n => b.le n) v i
  else if k == "pattern" then kPattern C v i
  else if k == "maxItems" then sizeKw arrSize (fun b n => n.le b) v i
  else if k == "minItems" then sizeKw arrSize (fun b n => b.le n) v i
  else if k == "uniqueItems" then kUnique v i
  else if k == "maxProperties" then sizeKw objSize (fun b n => n.le b) v i
  else if k == "minProperties" then sizeKw objSize (fun b n => b.le n) v i
  else if k == "required" then kRequired v i
  else if k == "dependentRequired" then kDependentRequired v i
  else true

/-! ### siblings an applicator has to look at -/

/-- number of `prefixItems` schemas next to an `items` keyword -/
def prefixLen (all : Obj) : Nat :=
  match lookup "prefixItems" all with
  | some (.arr ss) => ss.length
  | _ => 0

/-- a member name is covered by `properties` or by a `patternProperties` pattern of the same schema -/
def isDeclared (C : Ctx) (all : Obj) (name : String) : Bool :=
  (match lookup "properties" all with
   | some (.obj ps) => hasKey name ps
   | _ => false) ||
  (match lookup "patternProperties" all with
   | some (.obj pps) => pps.any fun p => C.search p.1 name
   | _ => false)

def natBound (all : Obj) (k : String) : Option Num :=
  match lookup k all with
  | some (.num n) => some n
  | _ => none

/-- `contains` with its `minContains` (default 1) / `maxContains` siblings, given the number of matching items -/
def containsOk (all : Obj) (matching : Nat) : Bool :=
  let n := Num.ofNat matching
  (match natBound all "minContains" with
   | some lo => lo.le n
   | none => (Num.ofNat 1).le n) &&
  (match natBound all "maxContains" with
   | some hi => n.le hi
   | none => true)

/-! ### the validator -/

mutual
/-- `validate C schema instance` -/
def validate (C : Ctx) (s i : Json) : Bool :=
  match s with
  | .bool b => b
  | .obj kvs => validateKws C kvs kvs i
  | _ => false          -- not a schema (excluded by `wf`)
termination_by structural s
/-- all keywords of one schema object; `all` is the whole object (for sibling lookups) -/
def validateKws (C : Ctx) (all : Obj) (kws : List (String × Json)) (i : Json) : Bool :=
  match kws with
  | [] => true
  | (k, v) :: rest =>
    (if k == "items" then (match i with
      | .arr xs => (xs.drop (prefixLen all)).all fun x => validate C v x
      | _ => true)
    else if k == "prefixItems" then (match v with
      | .arr ss => (match i with
        | .arr xs => validatePrefix C ss xs
        | _ => true)
      | _ => true)
    else if k == "contains" then (match i with
      | .arr xs => containsOk all (xs.filter fun x => validate C v x).length
      | _ => true)
    else if k == "properties" then (match v with
      | .obj ps => (match i with
        | .obj o => validateProps C ps o
        | _ => true)
      | _ => true)
    else if k == "patternProperties" then (match v with
      | .obj pps => (match i with
        | .obj o => validatePatProps C pps o
        | _ => true)
      | _ => true)
    else if k == "additionalProperties" then (match i with
      | .obj o => o.all fun m => isDeclared C all m.1 || validate C v m.2
      | _ => true)
    else if k == "allOf" then (match v with
      | .arr ss => validateAll C ss i
      | _ => true)
    else if k == "anyOf" then (match v with
      | .arr ss => validateAny C ss i
      | _ => true)
    else if k == "oneOf" then (match v with
      | .arr ss => validateCount C ss i == 1
      | _ => true)
    else if k == "not" then !validate C v i
    else if k == "$ref" then (match v with
      | .str r => C.ref r i
      | _ => true)
    else checkSimple C k v i) && validateKws C all rest i
termination_by structural kws
def validatePrefix (C : Ctx) (ss : List Json) (xs : List Json) : Bool :=
  match ss with
  | [] => true
  | s :: ss => (match xs with
    | [] => true
    | x :: xs => validate C s x && validatePrefix C ss xs)
termination_by structural ss
def validateProps (C : Ctx) (ps : List (String × Json)) (o : Obj) : Bool :=
  match ps with
  | [] => true
  | (name, s) :: rest =>
    (match lookup name o with
     | some x => validate C s x
     | none => true) && validateProps C rest o
termination_by structural ps
def validatePatProps (C : Ctx) (pps : List (String × Json)) (o : Obj) : Bool :=
  match pps with
  | [] => true
  | (pat, s) :: rest =>
    (o.all fun m => !C.search pat m.1 || validate C s m.2) && validatePatProps C rest o
termination_by structural pps
def validateAll (C : Ctx) (ss : List Json) (i : Json) : Bool :=
  match ss with
  | [] => true
  | s :: ss => validate C s i && validateAll C ss i
termination_by structural ss
def validateAny (C : Ctx) (ss : List Json) (i : Json) : Bool :=
  match ss with
  | [] => false
  | s :: ss => validate C s i || validateAny C ss i
termination_by structural ss
def validateCount (C : Ctx) (ss : List Json) (i : Json) : Nat :=
  match ss with
  | [] => 0
  | s :: ss => (if validate C s i then 1 else 0) + validateCount C ss i
termination_by structural ss
end

/-! ### references into the root document -/

/-- `#/$defs/<name>`, `#/definitions/<name>` (one level, names without `~`/`/` escapes) and `#` -/
def lookupRef (root : Json) (r : String) : Option Json :=
  if r == "#" then some root else
  match root with
  | .obj kvs =>
    if r.startsWith "#/$defs/" then
      (match lookup "$defs" kvs with
       | some (.obj ds) => lookup (r.drop 8).toString ds
       | _ => none)
    else if r.startsWith "#/definitions/" then
      (match lookup "definitions" kvs with
       | some (.obj ds) => lookup (r.drop 14).toString ds
       | _ => none)
    else none
  | _ => none

/-- validation against a document whose `$ref`s point into its own `$defs`; every reference hop costs
one unit of fuel; an unresolvable reference or exhausted fuel rejects. -/
def validateRoot (search : String → String → Bool) : Nat → Json → Json → Json → Bool
  | 0, _, _, _ => false
  | n + 1, root, s, i =>
    validate ⟨search, fun r x => match lookupRef root r with
      | some d => validateRoot search n root d x
      | none => false⟩ s i

/-! ### well-formed schemas: the 2020-12 metaschema restricted to the vocabulary above

Keyword/value typing only; a `pattern` must be a string (whether it is a valid regular expression is
the regex engine's business). -/

def isNonNegInt : Json → Bool
  | .num n => n.isNonNegInt
  | _ => false

def isStrArray (xs : List Json) : Bool := xs.all fun x => (strOf x).isSome

def uniqueStrArray : Json → Bool
  | .arr xs => isStrArray xs && allDistinct xs
  | _ => false

def wfType : Json → Bool
  | .str t => primitiveNames.contains t
  | .arr ts => (ts.all fun t => match t with
      | .str t => primitiveNames.contains t
      | _ => false) && allDistinct ts      -- metaschema: `uniqueItems: true`
  | _ => false

/-- metaschema: a `type` array has `minItems: 1` -/
def typeNonEmpty : Json → Bool
  | .arr [] => false
  | _ => true

/-- keywords whose value is not a schema -/
def wfSimple (k : String) (v : Json) : Bool :=
  if k == "type" then wfType v && typeNonEmpty v
  else if k == "enum" then (match v with
    | .arr _ => true
    | _ => false)
  else if k == "multipleOf" then (match v with
    | .num n => n.isPos
    | _ => false)
  else if k == "maximum" || k == "exclusiveMaximum" || k == "minimum" || k == "exclusiveMinimum" then
    (match v with
     | .num _ => true
     | _ => false)
  else if k == "maxLength" || k == "minLength" || k == "maxItems" || k == "minItems"
      || k == "maxContains" || k == "minContains" || k == "maxProperties" || k == "minProperties" then
    isNonNegInt v
  else if k == "pattern" || k == "format" || k == "title" || k == "description" || k == "$ref"
      || k == "$schema" || k == "$id" || k == "$comment" || k == "$anchor" then
    (strOf v).isSome
  else if k == "uniqueItems" || k == "deprecated" || k == "readOnly" || k == "writeOnly" then
    (match v with
     | .bool _ => true
     | _ => false)
  else if k == "examples" then (match v with
    | .arr _ => true
    | _ => false)
  else if k == "required" then uniqueStrArray v
  else if k == "dependentRequired" then (match v with
    | .obj deps => deps.all fun d => uniqueStrArray d.2
    | _ => false)
  else true

def schemaKeywords : List String := ["items", "contains", "additionalProperties", "not"]
def schemaArrayKeywords : List String := ["prefixItems", "allOf", "anyOf", "oneOf"]
def schemaMapKeywords : List String := ["properties", "patternProperties", "$defs", "definitions"]

mutual
def wf (s : Json) : Bool :=
  match s with
  | .bool _ => true
  | .obj kvs => wfKws kvs
  | _ => false
termination_by structural s
def wfKws (kws : List (String × Json)) : Bool :=
  match kws with
  | [] => true
  | (k, v) :: rest =>
    (if schemaKeywords.contains k then wf v
    else if schemaArrayKeywords.contains k then (match v with
      | .arr (s :: ss) => wf s && wfList ss
      | _ => false)
    else if schemaMapKeywords.contains k then (match v with
      | .obj m => wfMap m
      | _ => false)
    else wfSimple k v) && wfKws rest
termination_by structural kws
def wfList (ss : List Json) : Bool :=
  match ss with
  | [] => true
  | s :: ss => wf s && wfList ss
termination_by structural ss
def wfMap (m : List (String × Json)) : Bool :=
  match m with
  | [] => true
  | (_, s) :: rest => wf s && wfMap rest
termination_by structural m
end

/-- the document can be written down as JSON with unique member names at every level -/
def uniqueKeys : Json → Bool
  | .obj kvs => strDistinct (keys kvs)
  | _ => true

end Utv.JsonSchema
