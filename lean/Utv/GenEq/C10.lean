import Utv.GenEq.Support
import Utv.Gen.Options
import Utv.Model.C10
/-!
C10 — T1 obligations: the error bookkeeping of `RuntimeContext` (`handle_error raise_error collect_tmp_error
clear_tmp_error`, utype/parser/options.py), regenerated on every run as `Utv.Gen.Options.*`, is the hand model's
`Ctx.handleError / raiseError / collectTmp / clearTmp` (`Model/C10.lean`) — including what stays in the context when
the method leaves through `raise`.

Encoding: the model's abstract value type is `Err` (an error object); the context is the `RuntimeContext` instance with
its two lists and the two options `handle_error` reads; what is raised is the error object itself (`Exc.raw`) or a
`CollectedParseError(errors=…)` (`Exc.collected`).
-/
namespace Utv.GenEq.C10
open Utv.Obj Utv.C10 Utv.Gen

abbrev E := OVal Err

def encErrs (es : List Err) : E := .seq .list (es.map .val)

def encOptNat : Option Nat → E
  | none => .none
  | some n => .int n

/-- the `RuntimeContext` a `Ctx` stands for (the attributes the four methods touch) -/
def encCtx (c : Ctx) : E :=
  .obj "RuntimeContext" [
    ("errors", encErrs c.errors),
    ("tmp_errors", encErrs c.tmp),
    ("options", .obj "Options" [("collect_errors", .bool c.mode.collect), ("max_errors", encOptNat c.mode.maxErrors)])]

/-- how a method ends: returns `None`, or raises -/
def encEnd : Option Exc → Outcome Err
  | none => .ret .none
  | some (.raw e) => .raise (.val e)
  | some (.collected es) => .raise (.obj "CollectedParseError" [("errors", encErrs es)])

macro "ctx_simp" "[" ls:Lean.Parser.Tactic.simpLemma,* "]" : tactic =>
  `(tactic| obj_simp [encCtx, encErrs, encOptNat, encEnd, getattr, setattr, lookupAttr, setAttrL, append, extend, toList, iter,
      len, ge, le, intOf?, OVal.isNone, Ctx.handleError, Ctx.raiseError, Ctx.collectTmp, Ctx.clearTmp, $ls,*])

theorem C10_gen_handle_error (W : World Err) (c : Ctx) (e : Err) (force : Bool) :
    Options.handle_error W (encCtx c) (.val e) (.bool force)
      = .ok (encCtx (c.handleError e force).1, encEnd (c.handleError e force).2) := by
  gen_obligation "C10_gen_handle_error: the regenerated code (Utv.Gen) is no longer equal to the hand model here" by
    obtain ⟨⟨collect, maxErrors⟩, o, errors, tmp⟩ := c
    cases force <;> cases collect <;> cases maxErrors <;> ctx_simp [Options.handle_error]
    rename_i m
    by_cases hm : m ≤ errors.length + 1
    · have hm' : (m : Int) ≤ (errors.length : Int) + 1 := by omega
      cases tmp <;> simp [hm, hm']
    · have hm' : ¬ (m : Int) ≤ (errors.length : Int) + 1 := by omega
      simp [hm, hm']

theorem C10_gen_raise_error (W : World Err) (c : Ctx) :
    Options.raise_error W (encCtx c) = .ok (encCtx c, encEnd c.raiseError) := by
  gen_obligation "C10_gen_raise_error: the regenerated code (Utv.Gen) is no longer equal to the hand model here" by
    obtain ⟨⟨collect, maxErrors⟩, o, errors, tmp⟩ := c
    cases errors <;> cases tmp <;> ctx_simp [Options.raise_error]

theorem C10_gen_collect_tmp_error (W : World Err) (c : Ctx) (e : Err) :
    Options.collect_tmp_error W (encCtx c) (.val e) = .ok (encCtx (c.collectTmp e), .ret .none) := by
  gen_obligation "C10_gen_collect_tmp_error: the regenerated code (Utv.Gen) is no longer equal to the hand model here" by
    ctx_simp [Options.collect_tmp_error]

theorem C10_gen_clear_tmp_error (W : World Err) (c : Ctx) :
    Options.clear_tmp_error W (encCtx c) = .ok (encCtx c.clearTmp, .ret .none) := by
  gen_obligation "C10_gen_clear_tmp_error: the regenerated code (Utv.Gen) is no longer equal to the hand model here" by
    ctx_simp [Options.clear_tmp_error]

/-! ### `RuntimeContext.enter`: a sub-context has its own (empty) error lists; its options are `self.options & options` -/

/-- the options object of a context: what `handle_error` and `__init__` read, and the model's `Opts` behind it -/
def encOptions (m : Mode) : E :=
  .obj "Options" [("collect_errors", .bool m.collect), ("max_errors", encOptNat m.maxErrors), ("max_depth", .none),
    ("override", .bool false), ("_options", .dict [(.str "collect_errors", .bool m.collect)])]

/-- a context as `enter` reads it (`extra`: its `cls`, `force_error`, `error_hooks`, whatever they are) -/
def encCtxE (c : Ctx) (depth : Int) (routes : List E) (cls fe eh : E) : E :=
  .obj "RuntimeContext" [("errors", encErrs c.errors), ("tmp_errors", encErrs c.tmp), ("options", encOptions c.mode),
    ("depth", .int depth), ("routes", .seq .list routes), ("cls", cls), ("force_error", fe), ("error_hooks", eh)]

/-- the error lists and the options object of a context -/
def viewCtx (x : M Err E) : Option (E × E × E) :=
  match x with
  | .ok c => (match getattr c "errors", getattr c "tmp_errors", getattr c "options" with
    | .ok a, .ok b, .ok o => some (a, b, o)
    | _, _, _ => none)
  | .error _ => none

/-- the sub-context `__init__` builds when a route is given -/
def subCtx (parent : E) (depth : Int) (routes : List E) (cls fe eh route o' : E) : E :=
  .obj "RuntimeContext" [("context", parent), ("depth", .int depth), ("route", route),
    ("routes", .seq .list (routes ++ [route])), ("errors", .seq .list []), ("tmp_errors", .seq .list []),
    ("warnings", .seq .list []), ("cls", cls), ("error_hooks", eh), ("options", o'), ("force_error", fe)]

theorem new_eq (W : World Err) (pc : String) (pattrs : List (String × E)) (depth : Int) (routes : List E)
    (cls fe eh route : E) (cn : String)
    (attrs : List (String × E)) (hr : route.isUnprovided = false) (hd : lookupAttr "max_depth" attrs = some .none)
    (h1 : lookupAttr "depth" pattrs = some (.int depth))
    (h2 : lookupAttr "routes" pattrs = some (.seq .list routes)) :
    Options.RuntimeContext_new W (.obj pc pattrs) cls route fe eh (.obj cn attrs)
      = .ok (subCtx (.obj pc pattrs) depth routes cls fe eh route (.obj cn attrs)) := by
  gen_obligation "C10_gen_enter_isolated (its lemma new_eq): the regenerated code (Utv.Gen) is no longer equal to the hand model here" by
    simp only [Options.RuntimeContext_new, Options.RuntimeContext_init]
    obj_simp [getattr, setattr, lookupAttr, setAttrL, hr, hd, h1, h2, toList, iter, append, subCtx]

section attrs
variable (c : Ctx) (depth : Int) (routes : List E) (cls fe eh : E)
theorem ga_cls : getattr (encCtxE c depth routes cls fe eh) "cls" = .ok cls := rfl
theorem ga_fe : getattr (encCtxE c depth routes cls fe eh) "force_error" = .ok fe := rfl
theorem ga_eh : getattr (encCtxE c depth routes cls fe eh) "error_hooks" = .ok eh := rfl
theorem ga_opts : getattr (encCtxE c depth routes cls fe eh) "options" = .ok (encOptions c.mode) := rfl
theorem ga_depth : getattr (encCtxE c depth routes cls fe eh) "depth" = .ok (.int depth) := rfl
theorem ga_routes : getattr (encCtxE c depth routes cls fe eh) "routes" = .ok (.seq .list routes) := rfl
end attrs

/-- `context.enter(route, options)`: whatever `self.options & options` is (an `Options` without `max_depth`), the
sub-context is a new object with **empty error lists** that runs under exactly that -/
theorem C10_gen_enter_isolated (W : World Err) (c : Ctx) (depth : Int) (routes : List E) (cls fe eh route opt : E)
    (cn : String) (attrs : List (String × E)) (hr : route.isUnprovided = false)
    (ho : Options.Options_and W (encOptions c.mode) opt = .ok (.obj cn attrs))
    (hd : lookupAttr "max_depth" attrs = some .none) :
    Options.enter W (encCtxE c depth routes cls fe eh) route opt
      = .ok (subCtx (encCtxE c depth routes cls fe eh) depth routes cls fe eh route (.obj cn attrs)) := by
  gen_obligation "C10_gen_enter_isolated: the regenerated code (Utv.Gen) is no longer equal to the hand model here" by
    have hn := new_eq W "RuntimeContext"
      [("errors", encErrs c.errors), ("tmp_errors", encErrs c.tmp), ("options", encOptions c.mode),
        ("depth", .int depth), ("routes", .seq .list routes), ("cls", cls), ("force_error", fe), ("error_hooks", eh)]
      depth routes cls fe eh route cn attrs hr hd rfl rfl
    simp only [Options.enter, ga_cls, ga_fe, ga_eh, ga_opts, ho, bind, Except.bind]
    exact hn

/-- `context.enter(route)` without options is `Ctx.enter c .none`: the same options, nothing of the parent's errors -/
theorem C10_gen_enter (W : World Err) (c : Ctx) (depth : Int) (routes : List E) (cls fe eh route : E)
    (hr : route.isUnprovided = false) :
    viewCtx (Options.enter W (encCtxE c depth routes cls fe eh) route .none)
      = some (encErrs (c.enter .none).errors, encErrs (c.enter .none).tmp, encOptions (c.enter .none).mode) := by
  gen_obligation "C10_gen_enter: the regenerated code (Utv.Gen) is no longer equal to the hand model here" by
    have ho : Options.Options_and W (encOptions c.mode) (.none : E) = .ok (encOptions c.mode) := by
      obj_simp [Options.Options_and, isinstance]
    rw [C10_gen_enter_isolated W c depth routes cls fe eh route .none _ _ hr ho rfl]
    rfl

end Utv.GenEq.C10
