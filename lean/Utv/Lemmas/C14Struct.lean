import Utv.Lemmas.C14Round
/-! C14 — container lemmas: lists, sets (dedup), dict keys, field lookup. -/
namespace Utv.C14

theorem canonList_eq_map (xs : List Val) : canonList xs = xs.map Val.canon := by
  induction xs with
  | nil => rfl
  | cons x xs ih => simp [canonList, ih]

theorem dedup_of_distinct : ∀ (ys xs : List Val), canonList ys = canonList xs → distinctCanon xs = true →
    dedupVals ys = ys
  | [], _, _, _ => rfl
  | y :: ys, [], h, _ => by simp [canonList] at h
  | y :: ys, x :: xs, h, hd => by
    simp only [canonList, List.cons.injEq] at h
    simp only [distinctCanon, Bool.and_eq_true, List.all_eq_true] at hd
    have ih := dedup_of_distinct ys xs h.2 hd.2
    simp only [dedupVals, ih, List.cons.injEq, true_and]
    apply List.filter_eq_self.mpr
    intro z hz
    have : z.canon ∈ canonList xs := by
      rw [← h.2, canonList_eq_map]; exact List.mem_map.mpr ⟨z, hz, rfl⟩
    rw [canonList_eq_map] at this
    obtain ⟨w, hw, hwz⟩ := List.mem_map.mp this
    have := hd.1 w hw
    rw [hwz, ← h.1] at this
    exact this

theorem lookup_of_mem_distinct {β : Type} : ∀ (kvs : List (Str × β)) (n : Str) (j : β),
    distinct (kvs.map (·.1)) = true → (n, j) ∈ kvs → lookup n kvs = some j
  | [], _, _, _, h => by simp at h
  | (k, v) :: r, n, j, hd, h => by
    simp only [List.map_cons, distinct, Bool.and_eq_true] at hd
    rcases List.mem_cons.mp h with h | h
    · injection h with h1 h2; subst h1; subst h2; simp [lookup]
    · have hne : (k == n) = false := by
        cases hk : k == n with
        | false => rfl
        | true =>
          have e : k = n := by simpa using hk
          subst e
          have : (r.map (·.1)).contains k = true := by
            simp only [List.contains_iff_mem]
            exact List.mem_map.mpr ⟨(k, j), h, rfl⟩
          rw [this] at hd; simp at hd
      simp [lookup, hne, lookup_of_mem_distinct r n j hd.2 h]

theorem Key.toStr_inj {k : KeyTy} {a b : Key} (ha : a.hasTy k = true) (hb : b.hasTy k = true)
    (h : a.toStr = b.toStr) : a = b := by
  cases k <;> cases a <;> cases b <;> simp [Key.hasTy] at ha hb
  · simpa [Key.toStr] using h
  · rename_i i j
    simp only [Key.toStr] at h
    have : i = j := by
      unfold intStr at h
      split at h <;> split at h
      · injection h with _ h2; have := natStr_inj h2; omega
      · rename_i h1 h2
        cases hn : natStr j.toNat with
        | nil => exact absurd hn (natStr_ne_nil _)
        | cons c r =>
          rw [hn] at h
          have hc : c.isDigit = true := natStr_isDigit (by rw [hn]; simp)
          injection h with h3 _; subst h3; simp at hc
      · cases hn : natStr i.toNat with
        | nil => exact absurd hn (natStr_ne_nil _)
        | cons c r =>
          rw [hn] at h
          have hc : c.isDigit = true := natStr_isDigit (by rw [hn]; simp)
          injection h with h3 _; subst h3; simp at hc
      · have := natStr_inj h; omega
    subst this; rfl

theorem distinct_map_of_inj {α β : Type} [BEq α] [LawfulBEq α] [BEq β] [LawfulBEq β] (f : α → β) :
    ∀ (l : List α), (∀ a ∈ l, ∀ b ∈ l, f a = f b → a = b) → distinct l = true → distinct (l.map f) = true
  | [], _, _ => rfl
  | x :: xs, hinj, hd => by
    simp only [distinct, Bool.and_eq_true] at hd
    simp only [List.map_cons, distinct, Bool.and_eq_true]
    refine ⟨?_, distinct_map_of_inj f xs (fun a ha b hb => hinj a (by simp [ha]) b (by simp [hb])) hd.2⟩
    cases hc : (xs.map f).contains (f x) with
    | false => rfl
    | true =>
      have : f x ∈ xs.map f := by simpa using hc
      obtain ⟨w, hw, hwx⟩ := List.mem_map.mp this
      have := hinj w (by simp [hw]) x (by simp) hwx
      subst this
      have : xs.contains w = true := by simpa using hw
      rw [this] at hd; simp at hd

theorem find?_none_of_not_mem {β : Type} (key : Key) : ∀ (l : List (Key × β)),
    (l.map (·.1)).contains key = false → l.find? (fun kv => kv.1 == key) = none
  | [], _ => rfl
  | (k, v) :: r, h => by
    simp only [List.map_cons, List.contains_cons, Bool.or_eq_false_iff] at h
    have hk : (k == key) = false := by
      cases hh : k == key with
      | false => rfl
      | true => have : k = key := by simpa using hh
                subst this; simp at h
    simp only [List.find?, hk]
    exact find?_none_of_not_mem key r h.2

end Utv.C14
