import Utv.Model.C15
/-! Attribute names: the collision loop of `get_attname` always finds a free name. -/
set_option linter.unusedVariables false
namespace Utv.C15

/-- if the loop ends on a taken name, every candidate it looked at was taken -/
theorem firstFree_taken (sfx : Nat → String) (origin : String) (excludes : List String) :
    (fuel i : Nat) → firstFree sfx origin excludes fuel i ∈ excludes → ∀ m, m ≤ fuel → origin ++ sfx (i + m) ∈ excludes
  | 0, i, h, m, hm => by
    have : m = 0 := by omega
    subst this
    simpa [firstFree] using h
  | fuel + 1, i, h, m, hm => by
    simp only [firstFree] at h
    by_cases hc : excludes.contains (origin ++ sfx i) = true
    · simp only [hc, if_true] at h
      cases m with
      | zero => simpa using hc
      | succ m =>
        have := firstFree_taken sfx origin excludes fuel (i + 1) h m (by omega)
        have e : i + 1 + m = i + (m + 1) := by omega
        rw [e] at this
        exact this
    · simp only [hc, Bool.false_eq_true, if_false] at h
      exact absurd (by simpa using h) hc

/-- the loop with as much fuel as there are taken names ends on a free one (pigeonhole) -/
theorem firstFree_fresh (sfx : Nat → String) (origin : String) (hinj : ∀ a b, origin ++ sfx a = origin ++ sfx b → a = b)
    (excludes : List String) (i : Nat) : firstFree sfx origin excludes excludes.length i ∉ excludes := by
  intro h
  have hall := firstFree_taken sfx origin excludes excludes.length i h
  -- excludes.length + 1 distinct names inside `excludes`
  let cands := (List.range (excludes.length + 1)).map fun m => origin ++ sfx (i + m)
  have hnd : cands.Nodup := by
    refine List.Pairwise.map (fun m => origin ++ sfx (i + m)) (fun a b hab heq => ?_) List.nodup_range
    have := hinj _ _ heq
    exact hab (by omega)
  have hsub : cands ⊆ excludes := by
    intro x hx
    obtain ⟨m, hm, rfl⟩ := List.mem_map.mp hx
    exact hall m (by simpa using List.mem_range.mp hm |> Nat.lt_succ_iff.mp)
  have := List.Nodup.length_le_of_subset hnd hsub
  simp [cands] at this
  omega

theorem getAttname_fresh (sfx : Nat → String) (hinj : ∀ o a b, o ++ sfx a = o ++ sfx b → a = b) (name : String)
    (excludes : List String) : getAttname sfx name excludes ∉ excludes := by
  unfold getAttname
  simp only
  by_cases h : excludes.contains (sanitize name) = true
  · simp only [h, if_true]
    exact firstFree_fresh sfx _ (hinj _) excludes 1
  · simp only [h, Bool.false_eq_true, if_false]
    simpa using h

/-- the attribute chosen for a property is none of: the attributes taken so far, the other property names,
the attributes of the base class -/
theorem attnameFor_fresh (N : Names) (hinj : ∀ o a b, o ++ N.sfx a = o ++ N.sfx b → a = b) (taken allKeys : List String)
    (key : String) : attnameFor N taken allKeys key ∉ taken ++ allKeys.filter (· != key) ++ N.reserved := by
  unfold attnameFor
  simp only
  by_cases h : (!validAttr N key || key.startsWith "_" ||
      (taken ++ allKeys.filter (· != key) ++ N.reserved).contains key) = true
  · simp only [h, if_true]
    exact getAttname_fresh N.sfx hinj key _
  · simp only [h, Bool.false_eq_true, if_false]
    have h' := (Bool.not_eq_true _).mp h
    rw [Bool.or_eq_false_iff] at h'
    simpa using h'.2

theorem assignAttnames_fresh (N : Names) (hinj : ∀ o a b, o ++ N.sfx a = o ++ N.sfx b → a = b) (allKeys : List String) :
    (ks taken : List String) → (∀ a ∈ assignAttnames N allKeys ks taken, a ∉ taken ∧ a ∉ N.reserved) ∧
      (assignAttnames N allKeys ks taken).Nodup
  | [], taken => by simp [assignAttnames]
  | k :: rest, taken => by
    simp only [assignAttnames]
    have hf := attnameFor_fresh N hinj taken allKeys k
    have ih := assignAttnames_fresh N hinj allKeys rest (taken ++ [attnameFor N taken allKeys k])
    refine ⟨?_, ?_⟩
    · intro a ha
      rcases List.mem_cons.mp ha with h | h
      · subst h
        exact ⟨fun h1 => hf (by simp [h1]), fun h1 => hf (by simp [h1])⟩
      · have := ih.1 a h
        exact ⟨fun h1 => this.1 (by simp [h1]), this.2⟩
    · apply List.nodup_cons.mpr
      refine ⟨fun hmem => ?_, ih.2⟩
      exact (ih.1 _ hmem).1 (by simp)

/-! ### the concrete suffix `'_' + str(i)`: injective, so the freshness theorems are not vacuous -/

/-- `'_' + str(i)` -/
def pySfx (i : Nat) : String := "_" ++ toString i

theorem pySfx_inj (o : String) (a b : Nat) (h : o ++ pySfx a = o ++ pySfx b) : a = b := by
  have h1 := (String.append_right_inj o).mp h
  unfold pySfx at h1
  have h2 := (String.append_right_inj "_").mp h1
  have h3 : (toString a).toList = (toString b).toList := by rw [h2]
  simp only [Nat.toString_eq_repr, Nat.toList_repr] at h3
  have := congrArg (fun l => Nat.ofDigitChars 10 l 0) h3
  simpa [Nat.ofDigitChars_ten_toDigits] using this

/-! ### the generated name is an attribute name: ASCII identifier, no keyword, no leading `_` or digit -/

/-- an ASCII identifier that is no keyword and does not start with `_` (nor with a digit) -/
def AsciiAttr (a : String) : Prop :=
  (∃ c rest, a.toList = c :: rest ∧ c.isAlpha = true) ∧ (∀ c ∈ a.toList, isIdentChar c = true) ∧ a ∉ pyKeywords

theorem kw_no_underscore : pyKeywords.all (fun k => !k.toList.contains '_') = true := by decide

theorem not_kw_of_underscore (a : String) (h : '_' ∈ a.toList) : a ∉ pyKeywords := by
  intro hk
  have := List.all_eq_true.mp kw_no_underscore a hk
  simp at this
  exact this h

theorem subRuns_chars : (cs : List Char) → (b : Bool) → ∀ c ∈ subRuns cs b, isIdentChar c = true
  | [], _, c, h => by simp [subRuns] at h
  | x :: rest, b, c, h => by
    simp only [subRuns] at h
    by_cases hx : isAlnum x = true
    · simp only [hx, if_true] at h
      rcases List.mem_cons.mp h with h1 | h1
      · subst h1; simp [isIdentChar]; left; simpa [isAlnum] using hx
      · exact subRuns_chars rest false c h1
    · simp only [hx, Bool.false_eq_true, if_false] at h
      cases b with
      | true => simp only [if_true] at h; exact subRuns_chars rest true c h
      | false =>
        simp only [Bool.false_eq_true, if_false] at h
        rcases List.mem_cons.mp h with h1 | h1
        · subst h1; simp [isIdentChar]
        · exact subRuns_chars rest true c h1

theorem stripL_suffix : (cs : List Char) → ∃ p, cs = p ++ stripL cs
  | [] => ⟨[], by simp [stripL]⟩
  | c :: rest => by
    by_cases h : c = '_'
    · subst h
      obtain ⟨p, hp⟩ := stripL_suffix rest
      refine ⟨'_' :: p, ?_⟩
      simp only [stripL, List.cons_append]
      rw [← hp]
    · refine ⟨[], ?_⟩
      have : stripL (c :: rest) = c :: rest := by
        unfold stripL
        split
        · rename_i heq; cases heq; exact absurd rfl h
        · rfl
      rw [this]; rfl

theorem stripL_head : (cs : List Char) → ∀ c rest, stripL cs = c :: rest → c ≠ '_'
  | [], c, rest, h => by simp [stripL] at h
  | x :: xs, c, rest, h => by
    by_cases hx : x = '_'
    · subst hx
      simp only [stripL] at h
      exact stripL_head xs c rest h
    · have : stripL (x :: xs) = x :: xs := by
        unfold stripL
        split
        · rename_i heq; cases heq; exact absurd rfl hx
        · rfl
      rw [this] at h
      cases h
      exact hx

/-- `strip('_')`: a sublist that does not start with `_` -/
theorem strip_props (cs : List Char) : (∀ c ∈ strip cs, c ∈ cs) ∧ ∀ c rest, strip cs = c :: rest → c ≠ '_' := by
  unfold strip
  obtain ⟨p, hp⟩ := stripL_suffix cs
  obtain ⟨q, hq⟩ := stripL_suffix (stripL cs).reverse
  -- stripL cs = (stripL (stripL cs).reverse).reverse ++ q.reverse
  have hd : stripL cs = (stripL (stripL cs).reverse).reverse ++ q.reverse := by
    have := congrArg List.reverse hq
    simpa using this
  constructor
  · intro c hc
    rw [hp]
    apply List.mem_append_right
    rw [hd]
    exact List.mem_append_left _ hc
  · intro c rest h
    rw [h] at hd
    exact stripL_head cs c (rest ++ q.reverse) (by simpa using hd)

theorem isIdentChar_of_alnum (c : Char) (h : c.isAlphanum = true) : isIdentChar c = true := by
  simp [isIdentChar, h]

/-- the name before the collision loop is an attribute name -/
theorem sanitize_attr (name : String) : AsciiAttr (sanitize name) := by
  -- the characters after substitution and stripping
  have hchars : ∀ c ∈ strip (subRuns name.toList false), isIdentChar c = true :=
    fun c hc => subRuns_chars _ _ c ((strip_props _).1 c hc)
  have hhead := (strip_props (subRuns name.toList false)).2
  -- the list the name is made of
  have key : ∃ cs : List Char, (∃ c rest, cs = c :: rest ∧ c.isAlpha = true) ∧ (∀ c ∈ cs, isIdentChar c = true) ∧
      sanitize name = (if pyKeywords.contains (String.ofList cs) then String.ofList cs ++ "_value" else String.ofList cs) := by
    unfold sanitize
    simp only
    cases hs : strip (subRuns name.toList false) with
    | nil =>
      refine ⟨"field_".toList, ⟨'f', "ield_".toList, by decide, by decide⟩, ?_, rfl⟩
      intro c hc
      have : c ∈ ['f', 'i', 'e', 'l', 'd', '_'] := by simpa using hc
      simp at this
      rcases this with rfl | rfl | rfl | rfl | rfl | rfl <;> decide
    | cons c rest =>
      by_cases hdig : c.isDigit = true
      · refine ⟨"field_".toList ++ c :: rest, ⟨'f', "ield_".toList ++ c :: rest, by rfl, by decide⟩, ?_, by simp [hdig]⟩
        intro x hx
        rcases List.mem_append.mp hx with h | h
        · have : x ∈ ['f', 'i', 'e', 'l', 'd', '_'] := by simpa using h
          simp at this
          rcases this with rfl | rfl | rfl | rfl | rfl | rfl <;> decide
        · exact hchars x (by rw [hs]; exact h)
      · refine ⟨c :: rest, ⟨c, rest, rfl, ?_⟩, fun x hx => hchars x (by rw [hs]; exact hx), by simp [hdig]⟩
        -- an identifier character that is neither `_` nor a digit is a letter
        have h1 := hchars c (by rw [hs]; simp)
        have h2 := hhead c rest hs
        simp only [isIdentChar, Char.isAlphanum, Bool.or_eq_true, beq_iff_eq] at h1
        rcases h1 with (h | h) | h
        · exact h
        · exact absurd h hdig
        · exact absurd h h2
  obtain ⟨cs, ⟨c, rest, hcs, halpha⟩, hall, hsan⟩ := key
  rw [hsan]
  by_cases hk : pyKeywords.contains (String.ofList cs) = true
  · rw [if_pos hk]
    refine ⟨⟨c, rest ++ "_value".toList, ?_, halpha⟩, ?_, ?_⟩
    · simp [String.toList_append, String.toList_ofList, hcs]
    · intro x hx
      simp only [String.toList_append, String.toList_ofList, List.mem_append] at hx
      rcases hx with h | h
      · exact hall x h
      · have : x ∈ ['_', 'v', 'a', 'l', 'u', 'e'] := by simpa using h
        simp at this
        rcases this with rfl | rfl | rfl | rfl | rfl | rfl <;> decide
    · apply not_kw_of_underscore
      simp [String.toList_append]
  · rw [if_neg hk]
    refine ⟨⟨c, rest, by simp [String.toList_ofList, hcs], halpha⟩, ?_, by simpa using hk⟩
    intro x hx
    exact hall x (by simpa [String.toList_ofList] using hx)

theorem firstFree_form (sfx : Nat → String) (origin : String) (excludes : List String) :
    (fuel i : Nat) → ∃ m, firstFree sfx origin excludes fuel i = origin ++ sfx m
  | 0, i => ⟨i, rfl⟩
  | fuel + 1, i => by
    simp only [firstFree]
    split
    · exact firstFree_form sfx origin excludes fuel (i + 1)
    · exact ⟨i, rfl⟩

/-- a suffixed attribute name is one -/
theorem attr_suffix (a : String) (h : AsciiAttr a) (m : Nat) : AsciiAttr (a ++ pySfx m) := by
  obtain ⟨⟨c, rest, hc, halpha⟩, hall, _⟩ := h
  refine ⟨⟨c, rest ++ (pySfx m).toList, by simp [String.toList_append, hc], halpha⟩, ?_, ?_⟩
  · intro x hx
    simp only [String.toList_append, List.mem_append] at hx
    rcases hx with h | h
    · exact hall x h
    · simp only [pySfx, String.toList_append, Nat.toString_eq_repr, Nat.toList_repr, List.mem_append] at h
      rcases h with h | h
      · have : x = '_' := by simpa using h
        subst this; decide
      · have := Nat.isDigit_of_mem_toDigits (by decide) (by decide) h
        simp [isIdentChar, Char.isAlphanum, this]
  · apply not_kw_of_underscore
    simp [String.toList_append, pySfx]

theorem getAttname_attr (name : String) (excludes : List String) : AsciiAttr (getAttname pySfx name excludes) := by
  unfold getAttname
  simp only
  split
  · obtain ⟨m, hm⟩ := firstFree_form pySfx (sanitize name) excludes excludes.length 1
    rw [hm]
    exact attr_suffix _ (sanitize_attr name) m
  · exact sanitize_attr name

end Utv.C15
