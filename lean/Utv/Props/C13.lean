import Utv.Model.C13
import Utv.Lemmas.C13Json
import Utv.Lemmas.C13Wf
import Utv.Lemmas.C13Val
import Utv.Lemmas.C13Alias
import Utv.Lemmas.C13Defs
/-!
C13 — the generated JSON Schema is valid and describes what the parser does.

Part 1 (this section): the structure clauses — `properties`, `required`, `additionalProperties` of the
input view (and `properties` of the output view) against the parser's treatment of names, for every
declaration, every class mode and both views.  Part 2: `C13_wf`.  Part 3: `C13_outputs_validate`.
-/
set_option linter.unusedSimpArgs false
namespace Utv.C13
open Utv.JsonSchema

/-! ## field predicates: static view = run-time view = documented meaning -/

/-- the generator's static input view is the documented one -/
theorem C13_static_noinput_eq_spec (f : FieldMeta) (o : Opts) : alwaysNoInput f o = Spec.noInput f o := by
  unfold alwaysNoInput Spec.noInput Spec.flagOn Spec.inMode memMode
  cases hfd : (f.final && f.hasDefault) <;> cases hni : f.noInput <;> cases hm : o.mode <;> cases hfm : f.mode <;> simp

/-- the generator's static output view is the documented one -/
theorem C13_static_nooutput_eq_spec (f : FieldMeta) (o : Opts) : alwaysNoOutput f o = Spec.noOutput f o := by
  unfold alwaysNoOutput Spec.noOutput Spec.flagOn Spec.inMode memMode
  cases hni : f.noOutput <;> cases hm : o.mode <;> cases hfm : f.mode <;> simp

/-- what the parser does with a supplied value (`is_no_input`, repaired) is what the generator assumes (`always_no_input`) -/
theorem C13_runtime_noinput_eq_static (f : FieldMeta) (o : Opts) : isNoInput f o = alwaysNoInput f o := by
  unfold isNoInput alwaysNoInput
  cases hfd : (f.final && f.hasDefault) <;> cases hni : f.noInput <;> cases hm : o.mode <;> cases hfm : f.mode <;> simp

/-- what the parser publishes (`is_no_output`, repaired) is what the generator assumes (`always_no_output`) -/
theorem C13_runtime_nooutput_eq_static (f : FieldMeta) (o : Opts) : isNoOutput f o = alwaysNoOutput f o := by
  unfold isNoOutput alwaysNoOutput
  cases hni : f.noOutput <;> cases hm : o.mode <;> cases hfm : f.mode <;> simp

/-- before `fixes/C13-flag-mode.patch`: a field declared for modes r/w only, `no_input='w'`, parsed in mode `a`,
took input although no schema listed it (a declaration `Field.__init__` accepts) -/
theorem C13_legacy_flag_mode_witness :
    ∃ f o, fieldMetaOk f = true ∧ isNoInputLegacy f o = false ∧ alwaysNoInput f o = true :=
  ⟨{ name := "a", attname := "a", aliases := [], required := .never, hasDefault := false, deferDefault := false,
     noInput := .modes ['w'], noOutput := .no, mode := some ['r', 'w'], final := false, deps := [], title := none,
     description := none, deprecated := false, exampleV := none },
   { mode := some 'a', addition := .drop, ignoreRequired := false, noDefault := false, deferDefault := false },
   by decide⟩

/-- `is_required` (used by generator and parser alike) is the documented "absence is an error" -/
theorem C13_required_eq_spec (f : FieldMeta) (o : Opts) : isRequired f o = Spec.absenceIsError f o := by
  unfold isRequired Spec.absenceIsError
  rw [C13_static_noinput_eq_spec]
  cases hi : o.ignoreRequired <;> cases hn : Spec.noInput f o <;> cases hr : f.required <;> simp

/-! ## reading the generated document of a data class -/

theorem genFields_keys (cfg : Cfg) (o : Opts) (fs : List Fld) :
    keys (genFields cfg o fs) = ((fs.map Fld.meta).filter (fieldVisible cfg o)).map (·.name) := by
  induction fs with
  | nil => simp [genFields, keys]
  | cons f rest ih =>
    obtain ⟨m, ty⟩ := f
    rw [genFields.eq_def]
    simp only [List.map_cons, Fld.meta]
    by_cases h : fieldVisible cfg o m = true
    · simp [h, List.filter_cons, keys] at ih ⊢; exact ih
    · simp [h, List.filter_cons] at ih ⊢; exact ih

theorem filterMap_strOf_strs (xs : List String) : (xs.map Json.str).filterMap strOf = xs := by
  induction xs with
  | nil => rfl
  | cons x rest ih => simp [strOf, ih]

theorem isRequired_visible (cfg : Cfg) (o : Opts) (f : FieldMeta) (h : cfg.output = false) :
    (fieldVisible cfg o f && listedRequired cfg o f) = Spec.absenceIsError f o := by
  rw [← C13_required_eq_spec]
  unfold fieldVisible listedRequired isRequired
  cases ha : alwaysNoInput f o <;> simp [h]

theorem lookup_properties_data (cfg : Cfg) (c : ClassMeta) (fs : List Fld) (a : Ty) :
    lookup "properties" (gen cfg (.data c fs a)) = some (.obj (genFields cfg (effOpts cfg c) fs)) := by
  rw [gen.eq_def]; simp [lookup]

/-- `properties` of the input view lists exactly the fields the parser takes input for (class mode) -/
theorem C13_properties_iff_accepted (gm : Option Char) (c : ClassMeta) (fs : List Fld) (a : Ty) :
    propertyNames (generate ⟨false, gm⟩ (.data c fs a)) =
      ((fs.map Fld.meta).filter fun f => !isNoInput f c.opts).map (·.name) := by
  simp only [propertyNames, generate, lookup_properties_data, genFields_keys, effOpts]
  congr 1
  apply List.filter_congr
  intro f _
  simp [fieldVisible, C13_runtime_noinput_eq_static]

/-- … in the property's own words: a name is a listed property iff it names a field that exists in this mode,
is not closed to input, and is not a defaulted `Final` -/
theorem C13_properties_iff_spec (gm : Option Char) (c : ClassMeta) (fs : List Fld) (a : Ty) (name : String) :
    name ∈ propertyNames (generate ⟨false, gm⟩ (.data c fs a)) ↔
      ∃ f ∈ fs.map Fld.meta, f.name = name ∧ Spec.noInput f c.opts = false := by
  rw [C13_properties_iff_accepted]
  simp only [List.mem_map, List.mem_filter, C13_runtime_noinput_eq_static, C13_static_noinput_eq_spec]
  constructor
  · rintro ⟨f, ⟨⟨g, hg, rfl⟩, hf⟩, rfl⟩
    exact ⟨g.meta, ⟨g, hg, rfl⟩, rfl, by simpa using hf⟩
  · rintro ⟨f, ⟨g, hg, rfl⟩, rfl, hf⟩
    exact ⟨g.meta, ⟨⟨g, hg, rfl⟩, by simpa using hf⟩, rfl⟩

/-- `properties` of the output view lists exactly the fields the parser publishes in this mode -/
theorem C13_output_properties_iff_published (gm : Option Char) (c : ClassMeta) (fs : List Fld) (a : Ty) :
    propertyNames (generate ⟨true, gm⟩ (.data c fs a)) =
      ((fs.map Fld.meta).filter fun f => !isNoOutput f c.opts).map (·.name) := by
  simp only [propertyNames, generate, lookup_properties_data, genFields_keys, effOpts]
  congr 1
  apply List.filter_congr
  intro f _
  simp [fieldVisible, C13_runtime_nooutput_eq_static]

theorem lookup_classAnnotations (k : String) (o : Opts) (h : (k == "x-annotation") = false) :
    lookup k (classAnnotations o) = none := by
  unfold classAnnotations
  cases o.mode <;> simp [lookup, h, BEq.comm]

theorem lookup_reqSeg_ne (k : String) (cfg : Cfg) (o : Opts) (ms : List FieldMeta) (h : (k == "required") = false) :
    lookup k (reqSeg cfg o ms) = none := by
  unfold reqSeg; split <;> simp [lookup, h, BEq.comm]

theorem lookup_depSeg_ne (k : String) (cfg : Cfg) (o : Opts) (ms : List FieldMeta) (h : (k == "dependentRequired") = false) :
    lookup k (depSeg cfg o ms) = none := by
  unfold depSeg; split <;> simp [lookup, h, BEq.comm]

theorem lookup_addSeg_ne (k : String) (o : Opts) (s : Obj) (h : (k == "additionalProperties") = false) :
    lookup k (addSeg o s) = none := by
  unfold addSeg; cases o.addition <;> simp [lookup, h, BEq.comm]

theorem lookup_reqSeg (cfg : Cfg) (o : Opts) (ms : List FieldMeta) :
    lookup "required" (reqSeg cfg o ms) =
      (if (requiredNames cfg o ms).isEmpty then none else some (strArr (requiredNames cfg o ms))) := by
  unfold reqSeg
  by_cases h : (requiredNames cfg o ms).isEmpty = true
  · rw [if_pos h, if_pos h]; rfl
  · rw [if_neg h, if_neg h]; simp [lookup]

theorem lookup_required_data (cfg : Cfg) (c : ClassMeta) (fs : List Fld) (a : Ty) :
    lookup "required" (gen cfg (.data c fs a)) =
      (if (requiredNames cfg (effOpts cfg c) (fs.map Fld.meta)).isEmpty then none
       else some (strArr (requiredNames cfg (effOpts cfg c) (fs.map Fld.meta)))) := by
  rw [gen.eq_def]
  simp only [lookup_append]
  rw [lookup_depSeg_ne _ _ _ _ (by decide), lookup_addSeg_ne _ _ _ (by decide), lookup_classAnnotations _ _ (by decide),
    lookup_reqSeg]
  have h0 : ∀ x : Json, lookup "required" [("type", Json.str "object"), ("properties", x)] = none := by
    intro x; simp [lookup]
  rw [h0]
  by_cases h : (requiredNames cfg (effOpts cfg c) (fs.map Fld.meta)).isEmpty = true
  · rw [if_pos h]
  · rw [if_neg h]

/-- `required` of the input view lists exactly the fields whose absence is an error (class mode) -/
theorem C13_required_iff_absence_error (gm : Option Char) (c : ClassMeta) (fs : List Fld) (a : Ty) :
    requiredOf (generate ⟨false, gm⟩ (.data c fs a)) =
      ((fs.map Fld.meta).filter fun f => Spec.absenceIsError f c.opts).map (·.name) := by
  have hf : requiredNames ⟨false, gm⟩ (effOpts ⟨false, gm⟩ c) (fs.map Fld.meta) =
      ((fs.map Fld.meta).filter fun f => Spec.absenceIsError f c.opts).map (·.name) := by
    unfold requiredNames
    congr 1
    apply List.filter_congr
    intro f _
    exact isRequired_visible ⟨false, gm⟩ c.opts f rfl
  simp only [requiredOf, generate, lookup_required_data]
  by_cases h : (requiredNames ⟨false, gm⟩ (effOpts ⟨false, gm⟩ c) (fs.map Fld.meta)).isEmpty = true
  · rw [if_pos h, ← hf]
    simpa using h
  · rw [if_neg h]
    simp only [strArr, filterMap_strOf_strs]
    exact hf

theorem lookup_addSeg (o : Opts) (s : Obj) :
    lookup "additionalProperties" (addSeg o s) =
      (match o.addition with
       | .drop => none
       | .reject => some (.bool false)
       | .keep => some (.bool true)
       | .convert => some (.obj s)) := by
  unfold addSeg
  cases o.addition <;> simp [lookup]

theorem lookup_additional_data (cfg : Cfg) (c : ClassMeta) (fs : List Fld) (a : Ty) :
    lookup "additionalProperties" (gen cfg (.data c fs a)) =
      (match (effOpts cfg c).addition with
       | .drop => none
       | .reject => some (.bool false)
       | .keep => some (.bool true)
       | .convert => some (.obj (gen cfg a))) := by
  rw [gen.eq_def]
  simp only [lookup_append]
  rw [lookup_reqSeg_ne _ _ _ _ (by decide), lookup_depSeg_ne _ _ _ _ (by decide), lookup_classAnnotations _ _ (by decide),
    lookup_addSeg]
  have h0 : ∀ x : Json, lookup "additionalProperties" [("type", Json.str "object"), ("properties", x)] = none := by
    intro x; simp [lookup]
  rw [h0]
  cases (effOpts cfg c).addition <;> rfl

/-- `additionalProperties` says exactly what the parser does with unknown keys:
absent ↔ dropped, `false` ↔ rejected, `true` ↔ kept, the addition type's schema ↔ converted -/
theorem C13_additional_reflects_policy (cfg : Cfg) (c : ClassMeta) (fs : List Fld) (a : Ty) :
    additionalOf (generate cfg (.data c fs a)) = Spec.additionalMeans cfg a (parserUnknown c.opts) := by
  simp only [additionalOf, generate, lookup_additional_data, effOpts, parserUnknown]
  cases c.opts.addition <;> simp [Spec.additionalMeans, generate]

/-- … and the four answers are pairwise different, so the document determines the treatment -/
theorem C13_additional_policy_determined (cfg : Cfg) (a : Ty) (u u' : Spec.Unknown)
    (h : Spec.additionalMeans cfg a u = Spec.additionalMeans cfg a u') : u = u' := by
  cases u <;> cases u' <;> simp [Spec.additionalMeans, generate] at h ⊢

/-- (restates the model: `parserUnknown` and `Spec.unknownKeys` are the same case split on `Options.addition`; the
parser's `parse_addition` loop itself is tied by the unknown-key probes of the correspondence run, not by a theorem) -/
theorem unknown_keys_restates_model (o : Opts) : parserUnknown o = Spec.unknownKeys o := by
  cases h : o.addition <;> simp [parserUnknown, Spec.unknownKeys, h]

/-! ## aliases: every accepted name is listed, and only those -/

/-- the `x-aliases` a property schema carries -/
def aliasesOf (p : Json) : List String :=
  match p with
  | .obj m => (match lookup "x-aliases" m with
    | some (.arr xs) => xs.filterMap strOf
    | _ => [])
  | _ => []

/-- every name the input document lists: the property keys and their `x-aliases` -/
def listedNames (doc : Json) : List String :=
  match doc with
  | .obj kvs => (match lookup "properties" kvs with
    | some (.obj ps) => ps.flatMap fun p => p.1 :: aliasesOf p.2
    | _ => [])
  | _ => []

theorem aliasesOf_property (cfg : Cfg) (m : FieldMeta) (ty : Ty) (hw : wfTy ty = true) :
    aliasesOf (.obj (gen cfg ty ++ fieldExtras m)) = sortStrings m.aliases := by
  unfold aliasesOf
  simp only [lookup_append, lookup_gen_aliases cfg ty hw, lookup_fieldExtras_aliases]
  by_cases h : m.aliases.isEmpty = true
  · have : m.aliases = [] := by simpa using h
    simp [this, sortStrings]
  · rw [if_neg h]
    simp only [strArr]
    exact filterMap_strOf_strs _

theorem listed_genFields (cfg : Cfg) (o : Opts) (fs : List Fld) (hw : wfFields fs = true) (k : String) :
    k ∈ (genFields cfg o fs).flatMap (fun p => p.1 :: aliasesOf p.2) ↔
      ∃ f ∈ fs, fieldVisible cfg o f.meta = true ∧ k ∈ f.meta.name :: f.meta.aliases := by
  induction fs with
  | nil => rw [genFields.eq_def]; simp
  | cons f rest ih =>
    obtain ⟨m, ty⟩ := f
    rw [wfFields.eq_def] at hw
    simp only [Bool.and_eq_true] at hw
    have ih' := ih hw.2
    rw [genFields.eq_def]
    by_cases hv : fieldVisible cfg o m = true
    · simp only [hv, if_true, List.flatMap_cons, List.mem_append, aliasesOf_property cfg m ty hw.1.2]
      constructor
      · rintro (h | h)
        · refine ⟨.mk m ty, List.mem_cons_self .., hv, ?_⟩
          rcases List.mem_cons.mp h with h | h
          · exact List.mem_cons.mpr (Or.inl h)
          · exact List.mem_cons.mpr (Or.inr (mem_sortStrings h))
        · obtain ⟨f, hf, hp⟩ := ih'.mp h
          exact ⟨f, List.mem_cons_of_mem _ hf, hp⟩
      · rintro ⟨f, hf, hvf, hk⟩
        rcases List.mem_cons.mp hf with rfl | hf
        · left
          rcases List.mem_cons.mp hk with h | h
          · exact List.mem_cons.mpr (Or.inl h)
          · exact List.mem_cons.mpr (Or.inr ((List.mergeSort_perm _ _).mem_iff.mpr h))
        · right; exact ih'.mpr ⟨f, hf, hvf, hk⟩
    · simp only [hv]
      constructor
      · intro h
        obtain ⟨f, hf, hp⟩ := ih'.mp h
        exact ⟨f, List.mem_cons_of_mem _ hf, hp⟩
      · rintro ⟨f, hf, hvf, hk⟩
        rcases List.mem_cons.mp hf with rfl | hf
        · exact absurd hvf hv
        · exact ih'.mpr ⟨f, hf, hvf, hk⟩

/-- the names the input document lists (property keys and their `x-aliases`) are exactly the names the parser
accepts as input in the class's mode: the name and every alias of every field that takes input -/
theorem C13_listed_names_iff_accepted (gm : Option Char) (c : ClassMeta) (fs : List Fld) (a : Ty)
    (hw : wfFields fs = true) (k : String) :
    k ∈ listedNames (generate ⟨false, gm⟩ (.data c fs a)) ↔
      ∃ f ∈ fs, isNoInput f.meta c.opts = false ∧ k ∈ f.meta.name :: f.meta.aliases := by
  simp only [listedNames, generate, lookup_properties_data, listed_genFields _ _ fs hw]
  constructor
  · rintro ⟨f, hf, hv, hk⟩
    refine ⟨f, hf, ?_, hk⟩
    rw [C13_runtime_noinput_eq_static]
    simpa [fieldVisible, effOpts] using hv
  · rintro ⟨f, hf, hv, hk⟩
    refine ⟨f, hf, ?_, hk⟩
    rw [C13_runtime_noinput_eq_static] at hv
    simpa [fieldVisible, effOpts] using hv

/-! ## the generator's `mode` argument (known finding `generator-mode-ignored`)

Full statement (false of the code as it is):
  `∀ cfg c fs a, propertyNames (generate ⟨false, cfg.genMode⟩ (.data c fs a)) =
      ((fs.map Fld.meta).filter fun f => !isNoInput f (requestedOpts cfg c)).map (·.name)`
and the same for `required`. -/

theorem C13_mode_param_partial (cfg : Cfg) (c : ClassMeta) (fs : List Fld) (a : Ty)
    (h : KnownDefect.modeIgnored cfg c = false) :
    propertyNames (generate ⟨false, cfg.genMode⟩ (.data c fs a)) =
        ((fs.map Fld.meta).filter fun f => !isNoInput f (requestedOpts cfg c)).map (·.name) ∧
    requiredOf (generate ⟨false, cfg.genMode⟩ (.data c fs a)) =
        ((fs.map Fld.meta).filter fun f => Spec.absenceIsError f (requestedOpts cfg c)).map (·.name) := by
  have ho : requestedOpts cfg c = c.opts := by
    unfold requestedOpts
    unfold KnownDefect.modeIgnored at h
    cases hm : cfg.genMode with
    | none => rfl
    | some m =>
      simp [hm] at h
      cases c with
      | mk n o u => cases o; simp_all
  rw [ho]
  exact ⟨C13_properties_iff_accepted _ c fs a, C13_required_iff_absence_error _ c fs a⟩

def witnessField : FieldMeta :=
  { name := "a", attname := "a", aliases := [], required := .always, hasDefault := false, deferDefault := false,
    noInput := .no, noOutput := .no, mode := some ['w'], final := false, deps := [], title := none,
    description := none, deprecated := false, exampleV := none }

def witnessClass : ClassMeta :=
  { name := "W1", opts := { mode := none, addition := .drop, ignoreRequired := false, noDefault := false, deferDefault := false } }

/-- a write-only field of a mode-less class: asked for mode `r`, the generator still lists and requires it -/
theorem C13_mode_param_ignored_witness :
    ∃ cfg c fs a, KnownDefect.modeIgnored cfg c = true ∧
      propertyNames (generate ⟨false, cfg.genMode⟩ (.data c fs a)) ≠
        ((fs.map Fld.meta).filter fun f => !isNoInput f (requestedOpts cfg c)).map (·.name) :=
  ⟨⟨false, some 'r'⟩, witnessClass, [.mk witnessField (.plain .int)], .any, by decide, by decide⟩

/-- the hypotheses of the partial theorem are satisfiable, with a non-empty answer -/
example : ∃ cfg c fs a, KnownDefect.modeIgnored cfg c = false ∧
    propertyNames (generate ⟨false, cfg.genMode⟩ (.data c fs a)) = ["a"] :=
  ⟨⟨false, none⟩, witnessClass, [.mk witnessField (.plain .int)], .any, by decide, by decide⟩

/-! ## Part 2 — the generated document is a well-formed 2020-12 schema -/

theorem seqPrim_array (p : Prim) (h : (p == .list || p == .set || p == .tuple) = true) : getPrimitive p = "array" := by
  cases p <;> simp at h <;> rfl

mutual
theorem wf_gen (cfg : Cfg) : (t : Ty) → wfTy t = true → wfKws (gen cfg t) = true
  | .any, _ => by rw [gen.eq_def]; exact wfKws_nil
  | .plain p, _ => by rw [gen.eq_def]; exact wf_plainSchema p
  | .scalar p m cs, h => by
    rw [wfTy.eq_def] at h
    simp only [Bool.and_eq_true] at h
    rw [gen.eq_def]
    simp only [wfKws_append, wf_ruleHead, Bool.true_and]
    exact wf_scalar_cons p m cs h.1 h.2
  | .derived p m cs0 _ cs, h => by
    rw [wfTy.eq_def] at h
    simp only [Bool.and_eq_true] at h
    rw [gen.eq_def]
    simp only [wfKws_append, wf_ruleHead, Bool.true_and]
    rw [wf_scalar_cons p m cs0 h.1.1.1 h.1.2, wf_scalar_cons p m cs h.1.1.2 h.1.2]
    rfl
  | .seq p m cs item, h => by
    rw [wfTy.eq_def] at h
    simp only [Bool.and_eq_true] at h
    have ih := wf_gen cfg item h.2
    rw [gen.eq_def]
    simp only [wfKws_append, wf_ruleHead, Bool.true_and, wfKws_cons, wfKws_nil, Bool.and_true]
    rw [wf_array_cons p m cs (seqPrim_array p h.1.1.1) h.1.1.2 h.1.2, Bool.true_and]
    simp [wfEntry, schemaKeywords, wf_obj, ih]
  | .tup m cs items, h => by
    rw [wfTy.eq_def] at h
    simp only [Bool.and_eq_true] at h
    have ih := wf_genList cfg items h.2
    rw [gen.eq_def]
    simp only [wfKws_append, wf_ruleHead, Bool.true_and, wfKws_cons, wfKws_nil, Bool.and_true]
    rw [wf_array_cons .tuple m cs rfl h.1.1.1 h.1.1.2, Bool.true_and]
    cases items with
    | nil => simp at h
    | cons t rest =>
      rw [genList.eq_def] at ih ⊢
      simp only [wfList_cons, Bool.and_eq_true] at ih
      simp [wfEntry, schemaKeywords, schemaArrayKeywords, ih.1, ih.2]
  | .map m cs key val, h => by
    rw [wfTy.eq_def] at h
    simp only [Bool.and_eq_true] at h
    have ih := wf_gen cfg val h.2
    rw [gen.eq_def]
    simp only [wfKws_append, wf_ruleHead, Bool.true_and, wfKws_cons, wfKws_nil, Bool.and_true]
    rw [wf_object_cons m cs h.1.1.1 h.1.1.2, Bool.true_and]
    simp [wfEntry, schemaKeywords, schemaArrayKeywords, schemaMapKeywords, wfMap_cons, wfMap_nil, wf_obj, ih]
  | .enum e, _ => by rw [gen.eq_def]; exact wf_enumSchema e
  | .logic op ts, h => by
    rw [wfTy.eq_def] at h
    simp only [Bool.and_eq_true] at h
    have ih := wf_genList cfg ts h.2
    rw [gen.eq_def]
    simp only [wfKws_cons, wfKws_nil, Bool.and_true]
    cases ts with
    | nil => simp at h
    | cons t rest =>
      rw [genList.eq_def] at ih ⊢
      simp only [wfList_cons, Bool.and_eq_true] at ih
      cases op <;> simp [opName, wfEntry, schemaKeywords, schemaArrayKeywords, ih.1, ih.2]
  | .data c fields addTy, h => by
    rw [wfTy.eq_def] at h
    simp only [Bool.and_eq_true] at h
    have ihF := wf_genFields cfg (effOpts cfg c) fields h.1.2
    have ihA := wf_gen cfg addTy h.2
    rw [gen.eq_def]
    simp only [wfKws_append, wfKws_cons, wfKws_nil, Bool.and_true]
    rw [wf_reqSeg _ _ _ (by rw [← fieldNames_eq]; exact h.1.1.2), wf_depSeg _ _ _ (wfFields_deps fields h.1.2),
      wf_addSeg _ _ ihA, wf_classAnnotations]
    simp [wfEntry, wfSimple, wfType, typeNonEmpty, primitiveNames, schemaKeywords, schemaArrayKeywords, schemaMapKeywords, ihF]
theorem wf_genList (cfg : Cfg) : (ts : List Ty) → wfTys ts = true → wfList (genList cfg ts) = true
  | [], _ => by rw [genList.eq_def]; exact wfList_nil
  | t :: rest, h => by
    rw [wfTys.eq_def] at h
    simp only [Bool.and_eq_true] at h
    rw [genList.eq_def]
    simp only [wfList_cons, wf_obj, wf_gen cfg t h.1, wf_genList cfg rest h.2, Bool.and_self]
theorem wf_genFields (cfg : Cfg) (o : Opts) : (fs : List Fld) → wfFields fs = true → wfMap (genFields cfg o fs) = true
  | [], _ => by rw [genFields.eq_def]; exact wfMap_nil
  | .mk m ty :: rest, h => by
    rw [wfFields.eq_def] at h
    simp only [Bool.and_eq_true] at h
    have ih1 := wf_gen cfg ty h.1.2
    have ih2 := wf_genFields cfg o rest h.2
    rw [genFields.eq_def]
    by_cases hv : fieldVisible cfg o m = true
    · simp only [hv, if_true, wfMap_cons, wf_obj, wfKws_append, ih1, wf_fieldExtras, ih2, Bool.and_self]
    · simp only [hv]; exact ih2
end

/-- `C13_wf`: for every well-formed declaration, every generator mode and both views, the generated document
satisfies the 2020-12 metaschema (restricted to the vocabulary the generator can emit). -/
theorem C13_wf (cfg : Cfg) (t : Ty) (h : wfTy t = true) : wf (generate cfg t) = true := by
  unfold generate
  rw [wf_obj]
  exact wf_gen cfg t h

/-! ## Part 3 — every value the parser publishes validates against the output document -/

section outputs
variable (R : Rx) (L : RxLaws R) (C : Ctx) (hC : C.search = R.search) (gm : Option Char)
include L hC

mutual
theorem val_gen : (t : Ty) → (r : PV) → wfTy t = true → conforms R t r = true → safeDecimals r = true →
    oneOfOk C ⟨true, gm⟩ t r = true → (all : Obj) → SibAgree all (gen ⟨true, gm⟩ t) →
    validateKws C all (gen ⟨true, gm⟩ t) (encode r) = true
  | .any, _, _, _, _, _, all, _ => by rw [gen.eq_def]; exact validateKws_nil ..
  | .plain p, r, _, hc, hs, _, all, _ => by
    rw [conforms.eq_def] at hc
    rw [gen.eq_def]
    unfold plainSchema
    rw [validateKws_append, validateKws_cons, validateKws_nil, val_type C all _ _ (typeIs_plain p r hc hs),
      val_optStr C all "format" _ _ (by decide)]
    rfl
  | .scalar p m cs, r, hw, hc, hs, _, all, _ => by
    rw [wfTy.eq_def] at hw
    rw [conforms.eq_def] at hc
    simp only [Bool.and_eq_true] at hw hc
    rw [gen.eq_def]
    simp only [validateKws_append]
    rw [val_ruleHead C all p m _ hw.2 (typeIs_plain p r hc.1 hs),
      val_scalar_cons C R L hC all p m cs r hw.1 hw.2 hc.1 hs hc.2]
    rfl
  | .derived p m cs0 _ cs, r, hw, hc, hs, _, all, _ => by
    rw [wfTy.eq_def] at hw
    rw [conforms.eq_def] at hc
    simp only [Bool.and_eq_true] at hw hc
    rw [gen.eq_def]
    simp only [validateKws_append]
    rw [val_ruleHead C all p m _ hw.1.2 (typeIs_plain p r hc.1.1 hs),
      val_scalar_cons C R L hC all p m cs0 r hw.1.1.1 hw.1.2 hc.1.1 hs hc.1.2,
      val_scalar_cons C R L hC all p m cs r hw.1.1.2 hw.1.2 hc.1.1 hs hc.2]
    rfl
  | .seq p m cs item, r, hw, hc, hs, h1, all, _ => by
    rw [wfTy.eq_def] at hw
    rw [conforms.eq_def] at hc
    rw [oneOfOk.eq_def] at h1
    simp only [Bool.and_eq_true] at hw hc
    cases hx : elemsOf r with
    | none => simp [hx] at hc
    | some xs =>
      simp only [hx] at hc h1
      have he := encode_elems r xs hx
      have hparr := seqPrim_array p hw.1.1.1
      rw [gen.eq_def]
      simp only [validateKws_append, validateKws_cons, validateKws_nil, Bool.and_true]
      rw [val_ruleHead C all p m _ (by rw [hparr]; exact hw.1.2) (by rw [hparr, he]; rfl),
        val_consSchema C R all _ arrayCons cs r hw.1.1.2 hc.1.2 (by
          intro c hn hsc
          rw [rulePrimitive_fixed p m "array" hparr rfl hw.1.2]
          exact val_array C R all c hn r xs hx hsc)]
      simp only [Bool.true_and]
      rw [he]
      simp only [validateEntry, beq_self_eq_true, if_true]
      apply all_drop_of_all
      rw [List.all_eq_true]
      intro j hj
      obtain ⟨x, hxm, rfl⟩ := mem_encodeList hj
      rw [validate_obj]
      exact val_gen item x hw.2 (List.all_eq_true.mp hc.2 x hxm) (safe_elems r xs hx hs x hxm)
        (List.all_eq_true.mp h1 x hxm) _ (SibAgree.refl _)
  | .tup m cs items, r, hw, hc, hs, h1, all, _ => by
    rw [wfTy.eq_def] at hw
    rw [conforms.eq_def] at hc
    rw [oneOfOk.eq_def] at h1
    simp only [Bool.and_eq_true] at hw hc
    cases r <;> simp at hc
    rename_i xs
    have hx : elemsOf (.tuple xs) = some xs := rfl
    have he := encode_elems (.tuple xs) xs hx
    rw [gen.eq_def]
    simp only [validateKws_append, validateKws_cons, validateKws_nil, Bool.and_true]
    rw [val_ruleHead C all .tuple m _ hw.1.1.2 (by rw [he]; rfl),
      val_consSchema C R all _ arrayCons cs _ hw.1.1.1 hc.1 (by
        intro c hn hsc
        rw [rulePrimitive_fixed .tuple m "array" rfl rfl hw.1.1.2]
        exact val_array C R all c hn _ xs hx hsc)]
    simp only [Bool.true_and]
    rw [he]
    have hsl : safeList xs = true := by rw [safeDecimals.eq_def] at hs; exact hs
    have := val_zip items xs hw.2 hc.2 hsl h1
    simp [validateEntry, this]
  | .map m cs key val, r, hw, hc, hs, h1, all, _ => by
    rw [wfTy.eq_def] at hw
    rw [conforms.eq_def] at hc
    rw [oneOfOk.eq_def] at h1
    simp only [Bool.and_eq_true] at hw hc
    cases r <;> simp at hc
    rename_i kvs
    have he : encode (.dict kvs) = .obj (encodeDict kvs) := by rw [encode.eq_def]
    rw [gen.eq_def]
    simp only [validateKws_append, validateKws_cons, validateKws_nil, Bool.and_true]
    simp only at h1
    rw [val_ruleHead C all .dict m _ hw.1.1.2 (by rw [he]; rfl),
      val_consSchema C R all _ objectCons cs _ hw.1.1.1 hc.1 (by
        intro c hn hsc
        rw [rulePrimitive_fixed .dict m "object" rfl rfl hw.1.1.2]
        exact val_object C R all c hn kvs hsc)]
    simp only [Bool.true_and]
    rw [he]
    have hsd : safeDict kvs = true := by rw [safeDecimals.eq_def] at hs; exact hs
    simp only [validateEntry, validatePatProps.eq_def, Bool.and_true]
    simp only [(by decide : ("patternProperties" == "items") = false), (by decide : ("patternProperties" == "prefixItems") = false),
      (by decide : ("patternProperties" == "contains") = false), (by decide : ("patternProperties" == "properties") = false),
      beq_self_eq_true, Bool.false_eq_true, if_false, if_true]
    rw [List.all_eq_true]
    intro mem hmem
    obtain ⟨kv, hkv, rfl⟩ := mem_encodeDict hmem
    have hcv := hc.2 kv.1 kv.2 hkv
    have h1v := List.all_eq_true.mp h1 kv hkv
    rw [validate_obj, val_gen val kv.2 hw.2 hcv.2 (safeDict_mem hsd kv hkv) h1v _ (SibAgree.refl _)]
    simp
  | .enum e, r, hw, hc, hs, _, all, _ => by
    rw [wfTy.eq_def] at hw
    rw [gen.eq_def]
    exact val_enum C R all e r hw hc hs
  | .logic op ts, r, hw, hc, hs, h1, all, _ => by
    rw [wfTy.eq_def] at hw
    rw [conforms.eq_def] at hc
    rw [oneOfOk.eq_def] at h1
    simp only [Bool.and_eq_true] at hw h1
    rw [gen.eq_def, validateKws_cons, validateKws_nil, Bool.and_true]
    cases op with
    | allOf =>
      simp only at hc
      simp [opName, validateEntry, val_all ts r hw.2 hc hs h1.2]
    | anyOf =>
      simp only at hc
      simp [opName, validateEntry, val_any ts r hw.2 hc hs h1.2]
    | oneOf =>
      simp only at hc
      have hany := val_any ts r hw.2 hc hs h1.2
      have hpos := count_pos_of_any C _ _ hany
      have hle : validateCount C (genList ⟨true, gm⟩ ts) (encode r) ≤ 1 := by simpa using h1.1
      have : validateCount C (genList ⟨true, gm⟩ ts) (encode r) = 1 := by omega
      simp [opName, validateEntry, this]
  | .data c fields addTy, r, hw, hc, hs, h1, all, hall => by
    rw [wfTy.eq_def] at hw
    rw [conforms.eq_def] at hc
    rw [oneOfOk.eq_def] at h1
    simp only [Bool.and_eq_true] at hw
    cases r <;> simp only [Bool.false_eq_true] at hc
    rename_i kvs
    simp only [Bool.and_eq_true] at hc h1
    obtain ⟨⟨⟨hpres, hnoout⟩, hflds⟩, hadd⟩ := hc
    have he : encode (.inst kvs) = .obj (encodeInst kvs) := by rw [encode.eq_def]
    have hsi : safeInst kvs = true := by rw [safeDecimals.eq_def] at hs; exact hs
    have hgen := gen.eq_def ⟨true, gm⟩ (.data c fields addTy)
    simp only at hgen
    rw [hgen]
    simp only [validateKws_append, validateKws_cons, validateKws_nil, Bool.and_true, Bool.and_eq_true]
    rw [he]
    have hO : effOpts ⟨true, gm⟩ c = c.opts := rfl
    refine ⟨⟨⟨⟨⟨?_, ?_⟩, ?_⟩, ?_⟩, ?_⟩, ?_⟩
    · exact val_type C all "object" _ rfl
    · -- properties
      have := val_fields (effOpts ⟨true, gm⟩ c) fields kvs hw.1.2 hflds hsi h1.1
      simp [validateEntry, this]
    · -- required
      unfold reqSeg
      split
      · exact validateKws_nil ..
      · rw [validateKws_cons, validateKws_nil, Bool.and_true]
        simp only [validateEntry, checkSimple, kRequired, strArr,
          (by decide : ("required" == "items") = false), (by decide : ("required" == "prefixItems") = false),
          (by decide : ("required" == "contains") = false), (by decide : ("required" == "properties") = false),
          (by decide : ("required" == "patternProperties") = false), (by decide : ("required" == "additionalProperties") = false),
          (by decide : ("required" == "allOf") = false), (by decide : ("required" == "anyOf") = false),
          (by decide : ("required" == "oneOf") = false), (by decide : ("required" == "not") = false),
          (by decide : ("required" == "$ref") = false), (by decide : ("required" == "type") = false),
          (by decide : ("required" == "enum") = false), (by decide : ("required" == "const") = false),
          (by decide : ("required" == "multipleOf") = false), (by decide : ("required" == "maximum") = false),
          (by decide : ("required" == "exclusiveMaximum") = false), (by decide : ("required" == "minimum") = false),
          (by decide : ("required" == "exclusiveMinimum") = false), (by decide : ("required" == "maxLength") = false),
          (by decide : ("required" == "minLength") = false), (by decide : ("required" == "pattern") = false),
          (by decide : ("required" == "maxItems") = false), (by decide : ("required" == "minItems") = false),
          (by decide : ("required" == "uniqueItems") = false), (by decide : ("required" == "maxProperties") = false),
          (by decide : ("required" == "minProperties") = false), beq_self_eq_true, Bool.false_eq_true, if_false, if_true]
        apply requiredOk_strs
        intro n hn
        unfold requiredNames at hn
        rw [List.mem_map] at hn
        obtain ⟨f, hf, rfl⟩ := hn
        rw [List.mem_filter] at hf
        have hp := present_of_listed gm _ f hf.2
        rw [hasKey_encodeInst]
        rw [List.mem_map] at hf
        obtain ⟨⟨g, hg, rfl⟩, _⟩ := hf
        have := List.all_eq_true.mp hpres g hg
        rw [hO] at hp
        simpa [hp] using this
    · -- dependentRequired: not part of an output document
      have : depSeg ⟨true, gm⟩ (effOpts ⟨true, gm⟩ c) (fields.map Fld.meta) = [] := by
        unfold depSeg dependentRequired
        simp
      rw [this]
      exact validateKws_nil ..
    · -- additionalProperties
      have hdecl : ∀ kv ∈ kvs, (fieldNames fields).contains kv.1 = true → isDeclared C all kv.1 = true := by
        intro kv hkv hfn
        apply isDeclared_field C ⟨true, gm⟩ c fields addTy all hall
        unfold fieldNames at hfn
        rw [List.contains_iff_mem, List.mem_map] at hfn
        obtain ⟨g, hg, hgn⟩ := hfn
        refine ⟨g, hg, hgn, ?_⟩
        have hno := List.all_eq_true.mp hnoout g hg
        have hsome := lookup_isSome_of_mem kv.1 kv.2 kvs hkv
        rw [← hgn] at hsome
        unfold fieldVisible
        simp only [if_true, hO]
        rw [← isNoOutput_eq_always]
        cases hn : isNoOutput g.meta c.opts with
        | false => rfl
        | true =>
          simp only [hn, Bool.not_true, Bool.false_or] at hno
          rw [Option.isNone_iff_eq_none] at hno
          rw [hno] at hsome; cases hsome
      unfold addSeg
      rw [hO]
      cases hadd' : c.opts.addition with
      | drop => exact validateKws_nil ..
      | reject =>
        rw [validateKws_cons, validateKws_nil, Bool.and_true]
        simp only [validateEntry, (by decide : ("additionalProperties" == "items") = false),
          (by decide : ("additionalProperties" == "prefixItems") = false), (by decide : ("additionalProperties" == "contains") = false),
          (by decide : ("additionalProperties" == "properties") = false), (by decide : ("additionalProperties" == "patternProperties") = false),
          beq_self_eq_true, Bool.false_eq_true, if_false, if_true]
        rw [List.all_eq_true]
        intro mem hmem
        obtain ⟨kv, hkv, rfl⟩ := mem_encodeInst hmem
        have := List.all_eq_true.mp hadd kv hkv
        simp only [hadd', Bool.or_false] at this
        simp [hdecl kv hkv this]
      | keep =>
        rw [validateKws_cons, validateKws_nil, Bool.and_true]
        simp only [validateEntry, (by decide : ("additionalProperties" == "items") = false),
          (by decide : ("additionalProperties" == "prefixItems") = false), (by decide : ("additionalProperties" == "contains") = false),
          (by decide : ("additionalProperties" == "properties") = false), (by decide : ("additionalProperties" == "patternProperties") = false),
          beq_self_eq_true, Bool.false_eq_true, if_false, if_true]
        rw [List.all_eq_true]
        intro mem _
        rw [validate.eq_def]
        simp
      | convert =>
        rw [validateKws_cons, validateKws_nil, Bool.and_true]
        simp only [validateEntry, (by decide : ("additionalProperties" == "items") = false),
          (by decide : ("additionalProperties" == "prefixItems") = false), (by decide : ("additionalProperties" == "contains") = false),
          (by decide : ("additionalProperties" == "properties") = false), (by decide : ("additionalProperties" == "patternProperties") = false),
          beq_self_eq_true, Bool.false_eq_true, if_false, if_true]
        rw [List.all_eq_true]
        intro mem hmem
        obtain ⟨kv, hkv, rfl⟩ := mem_encodeInst hmem
        have hpol := List.all_eq_true.mp hadd kv hkv
        have h1a := List.all_eq_true.mp h1.2 kv hkv
        simp only [hadd', Bool.or_eq_true] at hpol
        simp only [Bool.or_eq_true] at h1a ⊢
        by_cases hfn : (fieldNames fields).contains kv.1 = true
        · left; exact hdecl kv hkv hfn
        · right
          have hca : conforms R addTy kv.2 = true := by
            rcases hpol with h | h
            · exact absurd h hfn
            · exact h
          have h1b : oneOfOk C ⟨true, gm⟩ addTy kv.2 = true := by
            rcases h1a with h | h
            · exact absurd h hfn
            · exact h
          rw [validate_obj]
          exact val_gen addTy kv.2 hw.2 hca (safeInst_mem hsi kv hkv) h1b _ (SibAgree.refl _)
    · -- x-annotation
      apply validateKws_annotations
      intro e hemem
      unfold classAnnotations at hemem
      cases hm : (effOpts ⟨true, gm⟩ c).mode <;> simp [hm] at hemem
      subst hemem; rfl
theorem val_zip : (ts : List Ty) → (xs : List PV) → wfTys ts = true → conformsZip R ts xs = true → safeList xs = true →
    oneOfOkZip C ⟨true, gm⟩ ts xs = true → validatePrefix C (genList ⟨true, gm⟩ ts) (encodeList xs) = true
  | [], _, _, _, _, _ => by rw [genList.eq_def, validatePrefix.eq_def]
  | t :: rest, xs, hw, hc, hs, h1 => by
    rw [wfTys.eq_def] at hw
    rw [conformsZip.eq_def] at hc
    rw [oneOfOkZip.eq_def] at h1
    simp only [Bool.and_eq_true] at hw
    cases xs with
    | nil => simp at hc
    | cons x xs' =>
      simp only [Bool.and_eq_true] at hc h1
      rw [safeList.eq_def] at hs
      simp only [Bool.and_eq_true] at hs
      rw [genList.eq_def, encodeList.eq_def, validatePrefix.eq_def]
      simp only [validate_obj, Bool.and_eq_true]
      exact ⟨val_gen t x hw.1 hc.1 hs.1 h1.1 _ (SibAgree.refl _), val_zip rest xs' hw.2 hc.2 hs.2 h1.2⟩
theorem val_all : (ts : List Ty) → (r : PV) → wfTys ts = true → conformsAll R ts r = true → safeDecimals r = true →
    oneOfOkAll C ⟨true, gm⟩ ts r = true → validateAll C (genList ⟨true, gm⟩ ts) (encode r) = true
  | [], _, _, _, _, _ => by rw [genList.eq_def, validateAll.eq_def]
  | t :: rest, r, hw, hc, hs, h1 => by
    rw [wfTys.eq_def] at hw
    rw [conformsAll.eq_def] at hc
    rw [oneOfOkAll.eq_def] at h1
    simp only [Bool.and_eq_true] at hw hc h1
    rw [genList.eq_def, validateAll.eq_def]
    simp only [validate_obj, Bool.and_eq_true]
    exact ⟨val_gen t r hw.1 hc.1 hs h1.1 _ (SibAgree.refl _), val_all rest r hw.2 hc.2 hs h1.2⟩
theorem val_any : (ts : List Ty) → (r : PV) → wfTys ts = true → conformsAny R ts r = true → safeDecimals r = true →
    oneOfOkAll C ⟨true, gm⟩ ts r = true → validateAny C (genList ⟨true, gm⟩ ts) (encode r) = true
  | [], _, _, hc, _, _ => by rw [conformsAny.eq_def] at hc; cases hc
  | t :: rest, r, hw, hc, hs, h1 => by
    rw [wfTys.eq_def] at hw
    rw [conformsAny.eq_def] at hc
    rw [oneOfOkAll.eq_def] at h1
    simp only [Bool.and_eq_true] at hw h1
    simp only [Bool.or_eq_true] at hc
    rw [genList.eq_def, validateAny.eq_def]
    simp only [validate_obj, Bool.or_eq_true]
    rcases hc with hc | hc
    · left; exact val_gen t r hw.1 hc hs h1.1 _ (SibAgree.refl _)
    · right; exact val_any rest r hw.2 hc hs h1.2
theorem val_fields (o : Opts) : (fs : List Fld) → (kvs : List (String × PV)) → wfFields fs = true →
    conformsFields R fs kvs = true → safeInst kvs = true → oneOfOkFields C ⟨true, gm⟩ fs kvs = true →
    validateProps C (genFields ⟨true, gm⟩ o fs) (encodeInst kvs) = true
  | [], _, _, _, _, _ => by rw [genFields.eq_def, validateProps.eq_def]
  | .mk m ty :: rest, kvs, hw, hc, hs, h1 => by
    rw [wfFields.eq_def] at hw
    rw [conformsFields.eq_def] at hc
    rw [oneOfOkFields.eq_def] at h1
    simp only [Bool.and_eq_true] at hw hc h1
    have ih := val_fields o rest kvs hw.2 hc.2 hs h1.2
    rw [genFields.eq_def]
    by_cases hv : fieldVisible ⟨true, gm⟩ o m = true
    · simp only [hv, if_true]
      rw [validateProps.eq_def]
      simp only [Bool.and_eq_true]
      refine ⟨?_, ih⟩
      rw [lookup_encodeInst]
      cases hl : kvs.lookup m.name with
      | none => rfl
      | some v =>
        simp only [Option.map_some]
        have hcv : conforms R ty v = true := by have := hc.1; simp only [hl] at this; exact this
        have h1v : oneOfOk C ⟨true, gm⟩ ty v = true := by have := h1.1; simp only [hl] at this; exact this
        have hsv := safeInst_mem hs (m.name, v) (lookup_mem m.name kvs v hl)
        rw [validate_obj, validateKws_append, val_fieldExtras, Bool.and_true]
        exact val_gen ty v hw.1.2 hcv hsv h1v _
          (SibAgree.append_right _ _ (fun k hk => lookup_fieldExtras_sib m k hk))
    · simp only [hv]
      exact ih
end
end outputs

/-! Full statement (what the property asks; false of the code as it is, see the two witnesses below):

  `∀ R C gm t r, RxLaws R → C.search = R.search → wfTy t → conforms R t r →
      validate C (generate ⟨true, gm⟩ t) (encode r) = true`

`conforms R t r` is what a successful parse of `t` promises about its result (the conclusion of C01/C05,
checked on every value the real parser returns in the correspondence run); `encode` is the JSON encoder;
`validate` is the independent draft 2020-12 validator of `Utv/Model/JsonSchema.lean`. -/

/-- `C13_outputs_validate`, outside the two known defects: every value a successful parse may publish validates
against the generated output document — all declarations, all class modes, all generator modes, unbounded nesting. -/
theorem C13_outputs_validate_partial (R : Rx) (L : RxLaws R) (C : Ctx) (hC : C.search = R.search) (gm : Option Char)
    (t : Ty) (r : PV) (hw : wfTy t = true) (hc : conforms R t r = true)
    (hd : KnownDefect.unsafeDecimal r = false) (ho : KnownDefect.oneOfOverlap C ⟨true, gm⟩ t r = false) :
    validate C (generate ⟨true, gm⟩ t) (encode r) = true := by
  unfold generate
  rw [validate_obj]
  refine val_gen R L C hC gm t r hw hc ?_ ?_ _ (SibAgree.refl _)
  · simpa [KnownDefect.unsafeDecimal] using hd
  · simpa [KnownDefect.oneOfOverlap] using ho

/-- a trivial regex oracle (everything matches): satisfies the laws, so the hypotheses are not vacuous -/
def Rx.top : Rx := ⟨fun _ _ => true, fun _ _ => true⟩
theorem Rx.top_laws : RxLaws Rx.top := ⟨fun _ _ _ => rfl⟩
def Ctx.top : Ctx := ⟨Rx.top.search, fun _ _ => false⟩

/-- known finding `decimal-unsafe-string`: `Decimal('1E+20')` conforms to `Decimal`, is published as the string
"1E+20" (encode.py:142-143), and the document says `{"type": "number"}` -/
theorem C13_unsafe_decimal_witness :
    ∃ t r, wfTy t = true ∧ conforms Rx.top t r = true ∧ KnownDefect.unsafeDecimal r = true ∧
      validate Ctx.top (generate ⟨true, none⟩ t) (encode r) = false :=
  ⟨.plain .decimal, .dec ⟨100000000000000000000, 0⟩ "1E+20", by decide, by decide, by decide, by decide⟩

def lowerStr : Ty := .scalar .str { primitive := none, format := none } [("regex", .str "[a-z]+")]
def len2Str : Ty := .scalar .str { primitive := none, format := none } [("length", .num ⟨2, 0⟩)]

/-- known finding `oneof-weaker-branch`: `(A ^ B)("abc")` with `A = str(regex='[a-z]+')`, `B = str(length=2)`
returns "abc" (only `A`'s parser accepts), but `B`'s schema `{"type": "string", "length": 2}` has no assertion for
`length`, so both `oneOf` branches accept "abc" and the document rejects the parser's own output -/
theorem C13_oneof_overlap_witness :
    ∃ t r, wfTy t = true ∧ conforms Rx.top t r = true ∧ KnownDefect.oneOfOverlap Ctx.top ⟨true, none⟩ t r = true ∧
      validate Ctx.top (generate ⟨true, none⟩ t) (encode r) = false :=
  ⟨.logic .oneOf [lowerStr, len2Str], .str "abc", by decide, by decide, by decide, by decide⟩

def sampleClass : Ty :=
  .data { name := "S", opts := { mode := some 'r', addition := .reject, ignoreRequired := false, noDefault := false, deferDefault := false } }
    [.mk { witnessField with mode := none, required := .always } (.scalar .int { primitive := none, format := none } [("gt", .num ⟨0, 0⟩)]),
     .mk { witnessField with name := "b", attname := "b", mode := none, required := .never, hasDefault := true }
        (.seq .list { primitive := none, format := none } [("max_length", .num ⟨2, 0⟩)] (.logic .anyOf [.plain .str, .plain .null]))]
    .any

def sampleValue : PV := .inst [("a", .int 3), ("b", .list [.str "x", .none])]

/-- the hypotheses of `C13_outputs_validate_partial` are satisfiable by a nested declaration (and the conclusion holds there) -/
example : wfTy sampleClass = true ∧ conforms Rx.top sampleClass sampleValue = true ∧
    KnownDefect.unsafeDecimal sampleValue = false ∧
    KnownDefect.oneOfOverlap Ctx.top ⟨true, none⟩ sampleClass sampleValue = false ∧
    validate Ctx.top (generate ⟨true, none⟩ sampleClass) (encode sampleValue) = true := by decide

/-- … and the document is not trivially permissive: it rejects a value that breaks the field's constraint -/
example : validate Ctx.top (generate ⟨true, none⟩ sampleClass) (encode (.inst [("a", .int 0), ("b", .list [])])) = false := by
  decide

/-! ## Part 4 — `$defs` mode: the shared registry (`defs=` / `names=`) over arbitrary call histories

`genD` (Model/C13Defs.lean) mirrors the registry-dependent branches of the generator and is compared document by
document with the real generator on multi-step sessions.  What is proved here is the registry discipline those
branches rely on: names identify types, registered names never change, and the reference a data class returns
resolves — in the document assembled from the registry — to the schema generated for that very class. -/

theorem entry_eq_of_name {reg : Reg} (hn : (reg.map (·.name)).Nodup) {e e' : Entry} (he : e ∈ reg) (he' : e' ∈ reg)
    (h : e.name = e'.name) : e = e' := by
  induction reg with
  | nil => cases he
  | cons x rest ih =>
    simp only [List.map_cons, List.nodup_cons] at hn
    rcases List.mem_cons.mp he with h1 | h1
    · rcases List.mem_cons.mp he' with h2 | h2
      · rw [h1, h2]
      · exact absurd (by rw [← h1, h]; exact List.mem_map_of_mem h2) hn.1
    · rcases List.mem_cons.mp he' with h2 | h2
      · exact absurd (by rw [← h2, ← h]; exact List.mem_map_of_mem h1) hn.1
      · exact ih hn.2 h1 h2

/-- a name of the registry belongs to one type only -/
theorem C13_defs_names_injective (reg : Reg) (hok : RegOk reg) (u u' : Nat) (n : String)
    (h : reg.nameOf u = some n) (h' : reg.nameOf u' = some n) : u = u' := by
  obtain ⟨e, he, hu, hn⟩ := nameOf_some_mem h
  obtain ⟨e', he', hu', hn'⟩ := nameOf_some_mem h'
  have := entry_eq_of_name hok.2 he he' (by rw [hn, hn'])
  rw [← hu, ← hu', this]

/-- whatever sequence of `set_def` calls is made (any names, any types, reservations and fills in any order):
identities and names stay pairwise distinct, and a registered name is never changed -/
theorem C13_defs_history_invariant (reg : Reg) (hok : RegOk reg) (ops : List DefOp) :
    RegOk (runOps reg ops) ∧ ∀ u n, reg.nameOf u = some n → (runOps reg ops).nameOf u = some n :=
  ⟨runOps_ok reg ops hok, fun u n h => runOps_stable reg ops u n h⟩

/-- the protocol of `generate_for_dataclass` (generator.py:299-304, 351-353): reserve a name for the class, generate
whatever the fields need (any history of registrations), fill the reservation under *the name the reservation
returned*.  Then the returned reference is the class's registered (de-duplicated) name, it resolves in `$defs` to
the schema just generated for this class, and no other type's name moved. -/
theorem C13_defs_ref_resolves (reg0 : Reg) (hok : RegOk reg0) (cls : String) (uid : Nat) (n : String)
    (hnone : reg0.nameOf uid = none) (hf : freeName reg0 cls = some n) (ops : List DefOp) (data : Obj) :
    let reserved := setDef reg0 cls uid none
    let fin := setDef (runOps reserved.2 ops) reserved.1 uid (some data)
    fin.1 = n ∧ fin.2.nameOf uid = some n ∧ lookup fin.1 (getDefs fin.2) = some (.obj data) ∧ RegOk fin.2 ∧
      ∀ u m, reg0.nameOf u = some m → fin.2.nameOf u = some m := by
  intro reserved fin
  have hres := setDef_fresh reg0 cls uid none n hnone hf
  have hokR : RegOk reserved.2 := setDef_ok reg0 cls uid none hok
  have hokK : RegOk (runOps reserved.2 ops) := runOps_ok _ ops hokR
  have hK : (runOps reserved.2 ops).nameOf uid = some n := runOps_stable _ ops uid n hres.2
  have hfin := setDef_registered (runOps reserved.2 ops) reserved.1 uid data n hK
  have h1 : fin.1 = n := by show (setDef _ _ _ _).1 = n; rw [hfin.1]; exact hres.1
  have h2 : fin.2 = (runOps reserved.2 ops).fill uid data := hfin.2
  refine ⟨h1, ?_, ?_, ?_, ?_⟩
  · rw [h2, nameOf_fill]; exact hK
  · rw [h1, h2]; exact lookup_getDefs_fill _ uid data n hokK hK
  · rw [h2]; exact ⟨by simp only [fill_uids]; exact hokK.1, by simp only [fill_names]; exact hokK.2⟩
  · intro u m hm
    rw [h2, nameOf_fill]
    exact runOps_stable _ ops u m (setDef_stable reg0 cls uid none u m hm)

/-! ### the same for the generator model `genD` itself -/

/-- `reg'` extends `reg`: still well-formed, and every registered name is kept -/
def Extends (reg reg' : Reg) : Prop :=
  (RegOk reg → RegOk reg') ∧ ∀ u n, reg.nameOf u = some n → reg'.nameOf u = some n

theorem Extends.refl (reg : Reg) : Extends reg reg := ⟨id, fun _ _ h => h⟩

theorem Extends.trans {a b c : Reg} (h1 : Extends a b) (h2 : Extends b c) : Extends a c :=
  ⟨fun h => h2.1 (h1.1 h), fun u n h => h2.2 u n (h1.2 u n h)⟩

theorem extends_setDef (reg : Reg) (name : String) (uid : Nat) (d : Option Obj) : Extends reg (setDef reg name uid d).2 :=
  ⟨setDef_ok reg name uid d, fun u n h => setDef_stable reg name uid d u n h⟩

theorem extends_ruleD (reg : Reg) (uid : Nat) (name : String) (data : Obj) : Extends reg (ruleD reg uid name data).2 := by
  unfold ruleD
  cases reg.nameOf uid with
  | some n => exact Extends.refl reg
  | none => exact extends_setDef reg name uid (some data)

mutual
theorem extends_genD (cfg : Cfg) : (t : Ty) → (reg : Reg) → Extends reg (genD cfg reg t).2
  | .any, reg => by rw [genD.eq_def]; exact Extends.refl reg
  | .plain _, reg => by rw [genD.eq_def]; exact Extends.refl reg
  | .scalar p m cs, reg => by rw [genD.eq_def]; exact extends_ruleD _ _ _ _
  | .derived p m cs0 site cs, reg => by
    rw [genD.eq_def]
    simp only
    cases reg.nameOf site with
    | some n => exact Extends.refl reg
    | none => exact (extends_ruleD reg m.uid m.name _).trans (extends_setDef _ _ _ _)
  | .seq p m cs item, reg => by rw [genD.eq_def]; exact extends_genD cfg item reg
  | .tup m cs items, reg => by rw [genD.eq_def]; exact extends_genListD cfg items reg
  | .map m cs key val, reg => by
    rw [genD.eq_def]
    exact (extends_genD cfg key reg).trans (extends_genD cfg val _)
  | .enum _, reg => by rw [genD.eq_def]; exact Extends.refl reg
  | .logic op ts, reg => by rw [genD.eq_def]; exact extends_genListD cfg ts reg
  | .data c fields addTy, reg => by
    rw [genD.eq_def]
    simp only
    cases reg.nameOf c.uid with
    | some n => exact Extends.refl reg
    | none =>
      simp only
      have h1 := extends_setDef reg (className cfg c (fields.map Fld.meta)) c.uid none
      have h2 := extends_genFieldsD cfg (effOpts cfg c) fields (setDef reg (className cfg c (fields.map Fld.meta)) c.uid none).2
      have h3 : Extends (genFieldsD cfg (effOpts cfg c) (setDef reg (className cfg c (fields.map Fld.meta)) c.uid none).2 fields).2
          (if ((effOpts cfg c).addition == Addition.convert) = true then
            (genD cfg (genFieldsD cfg (effOpts cfg c) (setDef reg (className cfg c (fields.map Fld.meta)) c.uid none).2 fields).2 addTy).2
          else (genFieldsD cfg (effOpts cfg c) (setDef reg (className cfg c (fields.map Fld.meta)) c.uid none).2 fields).2) := by
        split
        · exact extends_genD cfg addTy _
        · exact Extends.refl _
      exact ((h1.trans h2).trans h3).trans (extends_setDef _ _ c.uid _)
theorem extends_genListD (cfg : Cfg) : (ts : List Ty) → (reg : Reg) → Extends reg (genListD cfg reg ts).2
  | [], reg => by rw [genListD.eq_def]; exact Extends.refl reg
  | t :: rest, reg => by
    rw [genListD.eq_def]
    exact (extends_genD cfg t reg).trans (extends_genListD cfg rest _)
theorem extends_genFieldsD (cfg : Cfg) (o : Opts) : (fs : List Fld) → (reg : Reg) → Extends reg (genFieldsD cfg o reg fs).2
  | [], reg => by rw [genFieldsD.eq_def]; exact Extends.refl reg
  | .mk m ty :: rest, reg => by
    rw [genFieldsD.eq_def]
    simp only
    split
    · exact (extends_genD cfg ty reg).trans (extends_genFieldsD cfg o rest _)
    · exact extends_genFieldsD cfg o rest reg
end

/-- `genD` (the `$defs`-mode generator model), on any declaration and any registry: the registry stays well-formed
(names and identities pairwise distinct) and no registered name is changed -/
theorem C13_defs_genD_invariant (cfg : Cfg) (t : Ty) (reg : Reg) (hok : RegOk reg) :
    RegOk (genD cfg reg t).2 ∧ ∀ u n, reg.nameOf u = some n → (genD cfg reg t).2.nameOf u = some n :=
  ⟨(extends_genD cfg t reg).1 hok, (extends_genD cfg t reg).2⟩

/-- `genD` on a data class that is not registered yet: the reference it returns names the (de-duplicated) definition
under which the class is stored, and that definition is an object schema (the one just generated) -/
theorem C13_defs_genD_class_resolves (cfg : Cfg) (c : ClassMeta) (fields : List Fld) (addTy : Ty) (reg : Reg)
    (hok : RegOk reg) (hnone : reg.nameOf c.uid = none) (n : String)
    (hf : freeName reg (className cfg c (fields.map Fld.meta)) = some n) :
    (genD cfg reg (.data c fields addTy)).1 = refTo n ∧
      (genD cfg reg (.data c fields addTy)).2.nameOf c.uid = some n ∧
      ∃ data, lookup n (getDefs (genD cfg reg (.data c fields addTy)).2) = some (.obj data) ∧
        lookup "type" data = some (.str "object") := by
  have hres := setDef_fresh reg (className cfg c (fields.map Fld.meta)) c.uid none n hnone hf
  rw [genD.eq_def]
  simp only [hnone]
  -- the registry between reservation and fill
  generalize hmid : (if ((effOpts cfg c).addition == Addition.convert) = true then
      (genD cfg (genFieldsD cfg (effOpts cfg c) (setDef reg (className cfg c (fields.map Fld.meta)) c.uid none).2 fields).2 addTy).2
    else (genFieldsD cfg (effOpts cfg c) (setDef reg (className cfg c (fields.map Fld.meta)) c.uid none).2 fields).2) = regA
  have hext : Extends (setDef reg (className cfg c (fields.map Fld.meta)) c.uid none).2 regA := by
    rw [← hmid]
    have h2 := extends_genFieldsD cfg (effOpts cfg c) fields (setDef reg (className cfg c (fields.map Fld.meta)) c.uid none).2
    refine h2.trans ?_
    split
    · exact extends_genD cfg addTy _
    · exact Extends.refl _
  have hokA : RegOk regA := hext.1 (setDef_ok reg _ c.uid none hok)
  have hA : regA.nameOf c.uid = some n := hext.2 c.uid n hres.2
  generalize hdata : ([("type", Json.str "object"),
      ("properties", Json.obj (genFieldsD cfg (effOpts cfg c) (setDef reg (className cfg c (fields.map Fld.meta)) c.uid none).2 fields).1)] ++
      reqSeg cfg (effOpts cfg c) (fields.map Fld.meta) ++ depSeg cfg (effOpts cfg c) (fields.map Fld.meta) ++
      addSeg (effOpts cfg c) (genD cfg (genFieldsD cfg (effOpts cfg c) (setDef reg (className cfg c (fields.map Fld.meta)) c.uid none).2 fields).2 addTy).1 ++
      classAnnotations (effOpts cfg c) : Obj) = data
  have hfin := setDef_registered regA (setDef reg (className cfg c (fields.map Fld.meta)) c.uid none).1 c.uid data n hA
  rw [hres.1] at hfin ⊢
  refine ⟨by rw [hfin.1], ?_, data, ?_, ?_⟩
  · rw [hfin.2, nameOf_fill]; exact hA
  · rw [hfin.2]; exact lookup_getDefs_fill regA c.uid data n hokA hA
  · rw [← hdata]; simp [lookup_append, lookup]

/-- the hypotheses are satisfiable with a name clash: a second class that asks for a taken name is stored and
referred to under the de-duplicated one -/
example : freeName [⟨1, "User_w", some []⟩] "User_w" = some "User_w_1" ∧ Reg.nameOf [⟨1, "User_w", some []⟩] 2 = none := by
  decide

/-! ## non-vacuity with a regex oracle that discriminates, on mixed enums, narrowed rules, mappings, typed additions -/

/-- an oracle that knows one expression, `[a-z]+` (and its anchored form), and a few strings: it holds of "ab", "cd",
"k" and of nothing else -/
def Rx.lower : Rx :=
  ⟨fun p s => p == "[a-z]+" && ["ab", "cd", "k"].contains s,
   fun p s => p == ".*" || (p == anchor "[a-z]+" && ["ab", "cd", "k"].contains s)⟩

theorem Rx.lower_laws : RxLaws Rx.lower := by
  refine ⟨fun p s h => ?_⟩
  simp only [Rx.lower, Bool.and_eq_true, beq_iff_eq] at h ⊢
  obtain ⟨hp, h1⟩ := h
  subst hp
  simp only [Bool.or_eq_true, Bool.and_eq_true, beq_iff_eq]
  exact Or.inr ⟨trivial, h1⟩

def Ctx.lower : Ctx := ⟨Rx.lower.search, fun _ _ => false⟩

def mixedEnum : Ty := .enum ⟨none, [.int, .str], [("A", .num ⟨1, 0⟩), ("B", .str "a")]⟩
def posInt : RuleMeta := { primitive := none, format := none, name := "Pos", uid := 1 }

def richClass : Ty :=
  .data { name := "Rich", opts := { mode := none, addition := .convert, ignoreRequired := false, noDefault := false,
                                     deferDefault := false } }
    [.mk { witnessField with name := "e", attname := "e", mode := none } mixedEnum,
     .mk { witnessField with name := "d", attname := "d", mode := none, required := .never, deps := ["e"] }
        (.derived .int posInt [("gt", .num ⟨0, 0⟩)] 7 [("le", .num ⟨5, 0⟩)]),
     .mk { witnessField with name := "m", attname := "m", mode := none, required := .never }
        (.map { primitive := none, format := none } [("max_length", .num ⟨2, 0⟩)] (.plain .str)
          (.scalar .str { primitive := none, format := none } [("regex", .str "[a-z]+")]))]
    (.seq .list { primitive := none, format := none } [] (.plain .int))

def richValue : PV :=
  .inst [("e", .enumv (.int 1)), ("d", .int 3), ("m", .dict [(.name "k", .str "ab")]), ("zz", .list [.int 5])]

/-- all hypotheses of `C13_outputs_validate_partial` hold of a class with a mixed enum, a narrowed named rule, a
constrained mapping with a `regex` value type, a dependency and a typed addition — under an oracle that does reject -/
example : wfTy richClass = true ∧ conforms Rx.lower richClass richValue = true ∧
    KnownDefect.unsafeDecimal richValue = false ∧
    KnownDefect.oneOfOverlap Ctx.lower ⟨true, none⟩ richClass richValue = false ∧
    validate Ctx.lower (generate ⟨true, none⟩ richClass) (encode richValue) = true := by decide

/-- … and each ingredient bites: a non-member enum value, a value beyond the narrowing bound, an upper-case mapping
value and an addition of the wrong type are all refused by the contract and by the document -/
example :
    (conforms Rx.lower richClass (.inst [("e", .enumv (.int 2))]) = false ∧
      validate Ctx.lower (generate ⟨true, none⟩ richClass) (encode (.inst [("e", .enumv (.int 2))])) = false) ∧
    (conforms Rx.lower richClass (.inst [("e", .enumv (.str "a")), ("d", .int 6)]) = false ∧
      validate Ctx.lower (generate ⟨true, none⟩ richClass) (encode (.inst [("e", .enumv (.str "a")), ("d", .int 6)])) = false) ∧
    (conforms Rx.lower richClass (.inst [("e", .enumv (.int 1)), ("m", .dict [(.name "k", .str "AB")])]) = false ∧
      validate Ctx.lower (generate ⟨true, none⟩ richClass)
        (encode (.inst [("e", .enumv (.int 1)), ("m", .dict [(.name "k", .str "AB")])])) = false) ∧
    (conforms Rx.lower richClass (.inst [("e", .enumv (.int 1)), ("zz", .str "x")]) = false ∧
      validate Ctx.lower (generate ⟨true, none⟩ richClass) (encode (.inst [("e", .enumv (.int 1)), ("zz", .str "x")])) = false) := by
  decide

/-- the input document of the same class carries the dependency (input view only), anchored patterns and the
addition type's schema -/
example :
    (lookup "dependentRequired" (gen ⟨false, none⟩ richClass)).map (Json.eqv (.obj [("d", .arr [.str "e"])])) = some true ∧
    (lookup "dependentRequired" (gen ⟨true, none⟩ richClass)).isNone = true ∧
    (additionalOf (generate ⟨false, none⟩ richClass)).map
      (Json.eqv (.obj [("type", .str "array"), ("items", .obj [("type", .str "integer")])])) = some true := by
  decide +kernel

/-! ## glue the generator and the published values depend on -/

/-- whatever spelling `Field(deprecated=…)` takes (`True`, or the name of the replacing field), the document carries
the boolean the meta-data vocabulary asks for — `bool(deprecated)`, field.py — or nothing -/
theorem C13_deprecated_published_as_bool (r : RawField) :
    lookup "deprecated" (fieldExtras (normField r)) =
      (if r.deprecated.truthy then some (.bool true) else none) := by
  unfold fieldExtras
  simp only [lookup_append]
  have h1 : ∀ o, lookup "deprecated" (optStr "title" o) = none := fun o => lookup_optStr_ne _ _ o (by decide)
  have h2 : ∀ o, lookup "deprecated" (optStr "description" o) = none := fun o => lookup_optStr_ne _ _ o (by decide)
  rw [h1, h2]
  have hd : (normField r).deprecated = r.deprecated.truthy := rfl
  rw [hd]
  unfold deprecatedSeg
  by_cases h : r.deprecated.truthy = true
  · simp [h, lookup]
  · have h' : r.deprecated.truthy = false := by simpa using h
    have h4 : ∀ m, lookup "deprecated" (modeSeg m) = none := by
      intro m; unfold modeSeg; split <;> simp [lookup]
    have h5 : ∀ e, lookup "deprecated" (exampleSeg e) = none := by
      intro e; unfold exampleSeg; split <;> simp [lookup]
    have h6 : ∀ a l, lookup "deprecated" (aliasSeg a l) = none := by
      intro a l; unfold aliasSeg; split <;> simp [lookup]
    simp [h', lookup, h4, h5, h6]

/-- the string form in the document itself would not be a schema: the restricted metaschema (like the 2020-12
meta-data vocabulary) wants a boolean -/
theorem C13_wf_rejects_string_deprecated :
    wf (.obj [("type", .str "integer"), ("deprecated", .str "email")]) = false := by decide

/-- `type` arrays: the restricted metaschema (like 2020-12) wants at least one element and no repetition -/
theorem C13_wf_rejects_bad_type_arrays :
    wf (.obj [("type", .arr [.str "string", .str "string", .str "integer"])]) = false ∧
    wf (.obj [("type", .arr [])]) = false ∧
    wf (.obj [("type", .arr [.str "string", .str "integer"])]) = true := by decide

theorem jsUnsafe_zero (e : Nat) : jsUnsafe ⟨0, e⟩ = false := by
  have hp : (0 : Int) < 10 ^ e := Int.pow_pos (by decide)
  simp only [jsUnsafe, Num.lt, Num.ofInt, MAX_SAFE, Bool.or_eq_false_iff]
  constructor <;> (apply decide_eq_false; omega)

/-- `from_decimal` (encode.py): a zero `Decimal` is a number whatever its exponent (`Decimal('0.00')`, `'-0.0'`,
`'0E-7'` — what `decimal_places` padding produces from 0): the sub-normal test is guarded by `data and …` -/
theorem C13_zero_decimal_is_number (e : Nat) (s : String) : encode (.dec ⟨0, e⟩ s) = .num ⟨0, e⟩ := by
  have : decAsString ⟨0, e⟩ = false := by
    simp [decAsString, jsUnsafe_zero, decTiny]
  rw [encode.eq_def]
  simp [this]

/-- … hence it validates against the schema of a `Decimal` type, for every exponent -/
theorem C13_zero_decimal_validates (C : Ctx) (gm : Option Char) (e : Nat) (s : String) :
    validate C (generate ⟨true, gm⟩ (.plain .decimal)) (encode (.dec ⟨0, e⟩ s)) = true := by
  rw [C13_zero_decimal_is_number]
  unfold generate
  rw [validate_obj, gen.eq_def]
  simp [plainSchema, getFormat, firstCover, FORMAT_MAP, covers, optStr, validateKws_cons, validateKws_nil, validateEntry,
    checkSimple, checkType, typeIs, getPrimitive, PRIMITIVE_MAP, DEFAULT_PRIMITIVE]

end Utv.C13
