import Utv.Model.C20Reg
/-!
C20 (registry part) — invariant of concurrent lookups in a shared `TypeRegistry` and its preservation by
every atomic step, for programs that only look up (no registration).  Helper material for `Props/C20.lean`.
-/
namespace Utv.C20.Reg
open Utv.C16 (World Entry Det lookup sortPrio)

theorem find_of_take {α : Type} (p : α → Bool) (l : List α) (n : Nat) (e : α)
    (h1 : ∀ x ∈ l.take n, p x = false) (h2 : l[n]? = some e) (h3 : p e = true) : l.find? p = some e := by
  induction l generalizing n with
  | nil => simp at h2
  | cons a as ih =>
    cases n with
    | zero =>
      simp at h2; subst h2
      simp [List.find?, h3]
    | succ m =>
      have ha : p a = false := h1 a (by simp)
      simp only [List.find?, ha]
      apply ih m
      · intro x hx; exact h1 x (by simp [hx])
      · simpa using h2

theorem find_none_of_take {α : Type} (p : α → Bool) (l : List α) (n : Nat)
    (h1 : ∀ x ∈ l.take n, p x = false) (h2 : l[n]? = none) : l.find? p = none := by
  have hn : l.length ≤ n := by simpa using h2
  rw [List.take_of_length_le hn] at h1
  simpa [List.find?_eq_none] using h1

theorem take_succ_mem {α : Type} (l : List α) (n : Nat) (e : α) (h : l[n]? = some e) (x : α)
    (hx : x ∈ l.take (n + 1)) : x ∈ l.take n ∨ x = e := by
  rw [List.take_add_one, h] at hx
  simpa using hx

/-- per-thread invariant (programs without registrations) -/
structure TInv (W : World) (lg : Bool) (es : List Entry) (prog : List Op) (g : G) (t : Th) : Prop where
  noReg : noRegister t.ops = true
  hist  : t.outs ++ answers W es t.ops = answers W es prog
  cur   : (t.pc = .cchk ∨ t.pc = .cget ∨ t.pc = .iter ∨ t.pc = .cset) →
            ∃ c rest, t.ops = .res c :: rest ∧ W.shortcut c = none
  hit   : t.pc = .cget → lg = true → ∃ f, lookup (curClass t) g.cache = some f
  seen  : t.pc = .iter → ∀ x ∈ es.take t.idx, x.det.matches W (curClass t) = false
  found : t.pc = .cset → ∃ e, es.find? (fun e => e.det.matches W (curClass t)) = some e ∧ e.fn = t.fn
  noW   : t.pc ≠ .ins ∧ t.pc ≠ .sort ∧ t.pc ≠ .clr
  finE  : t.pc = .fin → t.ops = []

structure Inv (W : World) (lg : Bool) (es : List Entry) (prog : Nat → List Op) (s : Sys) : Prop where
  ent   : s.g.entries = es
  cache : CacheOK W es s.g.cache
  tinv  : ∀ k, TInv W lg es (prog k) s.g (s.th k)

theorem begin_inv {W : World} {co lg : Bool} {es : List Entry} {prog : List Op} {g : G} :
    ∀ (ops : List Op) (outs : List Res), noRegister ops = true → outs ++ answers W es ops = answers W es prog →
      TInv W lg es prog g (begin W co lg outs ops) := by
  intro ops
  induction ops with
  | nil =>
    intro outs _ h
    exact { noReg := rfl, hist := h, cur := by simp [begin], hit := by simp [begin], seen := by simp [begin],
            found := by simp [begin], noW := by simp [begin], finE := by simp [begin] }
  | cons op rest ih =>
    intro outs hn h
    cases op with
    | reg e => simp [noRegister] at hn
    | res c =>
      simp only [begin]
      cases hs : W.shortcut c with
      | some f =>
        simp only
        apply ih
        · simpa [noRegister] using hn
        · rw [← h]; simp [answers, answer, hs]
      | none =>
        simp only
        refine { noReg := hn, hist := h, cur := fun _ => ⟨c, rest, rfl, hs⟩, hit := ?_, seen := ?_, found := ?_, noW := ?_,
                 finE := ?_ }
        all_goals (cases co <;> cases lg <;> simp)


theorem finish_inv {W : World} {co lg : Bool} {es : List Entry} {prog : List Op} {g g' : G} {t : Th}
    (T : TInv W lg es prog g t) {c : Nat} {rest : List Op} (h0 : t.ops = .res c :: rest)
    (r : Res) (hr : r = .fn (answer W es c)) : TInv W lg es prog g' (finish W co lg t (some r)) := by
  unfold finish
  apply begin_inv
  · have := T.noReg; rw [h0] at this; simpa [h0, noRegister] using this
  · have := T.hist
    rw [h0] at this
    simp only [h0, List.tail_cons]
    rw [← this, hr]
    simp [answers]

theorem answer_of_find {W : World} {es : List Entry} {c : Nat} {e : Entry} (hs : W.shortcut c = none)
    (h : es.find? (fun e => e.det.matches W c) = some e) : answer W es c = some e.fn := by
  simp [answer, hs, h]

theorem answer_of_none {W : World} {es : List Entry} {c : Nat} (hs : W.shortcut c = none)
    (h : es.find? (fun e => e.det.matches W c) = none) : answer W es c = W.fallback c := by
  simp [answer, hs, h]

theorem lookup_cons_some {c c' f' : Nat} {cache : List (Nat × Nat)} (h : ∃ f, lookup c cache = some f) :
    ∃ f, lookup c ((c', f') :: cache) = some f := by
  simp only [lookup]
  split
  · exact ⟨_, rfl⟩
  · exact h

/-- a thread's invariant survives the steps of the other threads (which only add to the cache) -/
theorem tinv_frame {W : World} {lg : Bool} {es : List Entry} {prog : List Op} {g g' : G} {t : Th}
    (T : TInv W lg es prog g t)
    (hc : ∀ c, (∃ f, lookup c g.cache = some f) → ∃ f, lookup c g'.cache = some f) : TInv W lg es prog g' t :=
  { noReg := T.noReg, hist := T.hist, cur := T.cur, hit := fun h1 h2 => hc _ (T.hit h1 h2), seen := T.seen,
    found := T.found, noW := T.noW, finE := T.finE }

/-- one step of thread `k`: the shared state keeps its invariant and the cache only grows -/
theorem step_thread {W : World} {co lg : Bool} {es : List Entry} {prog : List Op} {g : G} {t : Th}
    (he : g.entries = es) (C : CacheOK W es g.cache) (T : TInv W lg es prog g t) :
    (stepTh W co lg g t).1.entries = es ∧ CacheOK W es (stepTh W co lg g t).1.cache ∧
    TInv W lg es prog (stepTh W co lg g t).1 (stepTh W co lg g t).2 ∧
    (∀ c, (∃ f, lookup c g.cache = some f) → ∃ f, lookup c (stepTh W co lg g t).1.cache = some f) := by
  cases hpc : t.pc with
  | start =>
    simp only [stepTh, hpc]
    exact ⟨he, C, begin_inv _ _ T.noReg T.hist, fun _ h => h⟩
  | fin =>
    simp only [stepTh, hpc]
    exact ⟨he, C, T, fun _ h => h⟩
  | ins => exact absurd hpc T.noW.1
  | sort => exact absurd hpc T.noW.2.1
  | clr => exact absurd hpc T.noW.2.2
  | cchk =>
    obtain ⟨c, rest, h0, hs⟩ := T.cur (Or.inl hpc)
    have hcc : curClass t = c := by simp [curClass, h0]
    simp only [stepTh, hpc]
    refine ⟨he, C, ?_, fun _ h => h⟩
    cases hl : lookup (curClass t) g.cache with
    | some f =>
      simp only
      exact { noReg := T.noReg, hist := T.hist, cur := fun _ => ⟨c, rest, h0, hs⟩, hit := fun _ _ => ⟨f, hl⟩,
              seen := by simp, found := by simp, noW := by simp, finE := by simp }
    | none =>
      simp only
      exact { noReg := T.noReg, hist := T.hist, cur := fun _ => ⟨c, rest, h0, hs⟩, hit := by simp,
              seen := by simp, found := by simp, noW := by simp, finE := by simp }
  | cget =>
    obtain ⟨c, rest, h0, hs⟩ := T.cur (Or.inr (Or.inl hpc))
    have hcc : curClass t = c := by simp [curClass, h0]
    simp only [stepTh, hpc]
    cases hl : lookup (curClass t) g.cache with
    | some f =>
      simp only
      refine ⟨he, C, ?_, fun _ h => h⟩
      obtain ⟨e, hf, hfn⟩ := C _ _ hl
      rw [hcc] at hf
      exact finish_inv T h0 _ (by rw [answer_of_find hs hf, hfn])
    | none =>
      simp only
      cases hlg : lg with
      | true =>
        obtain ⟨f, hf⟩ := T.hit hpc hlg
        rw [hl] at hf; cases hf
      | false =>
        simp only [Bool.false_eq_true, if_false]
        refine ⟨he, C, ?_, fun _ h => h⟩
        exact { noReg := T.noReg, hist := T.hist, cur := fun _ => ⟨c, rest, h0, hs⟩, hit := by simp,
                seen := by simp, found := by simp, noW := by simp, finE := by simp }
  | iter =>
    obtain ⟨c, rest, h0, hs⟩ := T.cur (Or.inr (Or.inr (Or.inl hpc)))
    have hcc : curClass t = c := by simp [curClass, h0]
    have hseen := T.seen hpc
    simp only [stepTh, hpc, he]
    cases hg : es[t.idx]? with
    | none =>
      simp only
      refine ⟨he, C, ?_, fun _ h => h⟩
      have := find_none_of_take _ es t.idx hseen hg
      rw [hcc] at this
      exact finish_inv T h0 _ (by rw [answer_of_none hs this, hcc])
    | some e =>
      simp only
      cases hm : e.det.matches W (curClass t) with
      | true =>
        simp only [if_true]
        have hfind := find_of_take _ es t.idx e hseen hg hm
        cases co with
        | true =>
          simp only [if_true]
          refine ⟨he, C, ?_, fun _ h => h⟩
          exact { noReg := T.noReg, hist := T.hist, cur := fun _ => ⟨c, rest, h0, hs⟩, hit := by simp,
                  seen := by simp, found := fun _ => ⟨e, by simpa [curClass, h0] using hfind, rfl⟩, noW := by simp,
                  finE := by simp }
        | false =>
          simp only [Bool.false_eq_true, if_false]
          refine ⟨he, C, ?_, fun _ h => h⟩
          rw [hcc] at hfind
          exact finish_inv T h0 _ (by rw [answer_of_find hs hfind])
      | false =>
        simp only [Bool.false_eq_true, if_false]
        refine ⟨he, C, ?_, fun _ h => h⟩
        refine { noReg := T.noReg, hist := T.hist, cur := fun _ => ⟨c, rest, h0, hs⟩, hit := by simp,
                 seen := ?_, found := by simp, noW := by simp, finE := by simp }
        intro _ x hx
        rcases take_succ_mem es t.idx e hg x hx with h | h
        · simpa [curClass, h0] using hseen x h
        · subst h; simpa [curClass, h0] using hm
  | cset =>
    obtain ⟨c, rest, h0, hs⟩ := T.cur (Or.inr (Or.inr (Or.inr hpc)))
    have hcc : curClass t = c := by simp [curClass, h0]
    obtain ⟨e, hf, hfn⟩ := T.found hpc
    simp only [stepTh, hpc]
    refine ⟨he, ?_, ?_, fun _ h => lookup_cons_some h⟩
    · intro c' f' hl
      simp only [lookup] at hl
      split at hl
      · rename_i heq
        have : curClass t = c' := by simpa using heq
        subst this
        cases hl
        exact ⟨e, hf, hfn⟩
      · exact C c' f' hl
    · rw [hcc] at hf
      exact finish_inv T h0 _ (by rw [answer_of_find hs hf, hfn])

theorem inv_step {W : World} {co lg : Bool} {es : List Entry} {prog : Nat → List Op} {s : Sys} (k : Nat)
    (I : Inv W lg es prog s) : Inv W lg es prog (s.step W co lg k) := by
  obtain ⟨h1, h2, h3, h4⟩ := step_thread (co := co) I.ent I.cache (I.tinv k)
  refine ⟨h1, h2, ?_⟩
  intro j
  by_cases hj : j = k
  · subst hj; simpa [Sys.step] using h3
  · simp only [Sys.step, hj, if_false]
    exact tinv_frame (I.tinv j) h4

theorem inv_init {W : World} {lg : Bool} {g : G} {prog : Nat → List Op}
    (hn : ∀ k, noRegister (prog k) = true) (hc : CacheOK W g.entries g.cache) :
    Inv W lg g.entries prog (init g prog) :=
  ⟨rfl, hc, fun k => { noReg := hn k, hist := by simp [init], cur := by simp [init], hit := by simp [init],
                       seen := by simp [init], found := by simp [init], noW := by simp [init], finE := by simp [init] }⟩

theorem inv_run {W : World} {co lg : Bool} {es : List Entry} {prog : Nat → List Op} (sched : List Nat) :
    ∀ {s : Sys}, Inv W lg es prog s → Inv W lg es prog (run W co lg s sched) := by
  induction sched with
  | nil => intro s I; exact I
  | cons k ks ih => intro s I; exact ih (inv_step k I)

end Utv.C20.Reg
