import Utv.Model.C07
import Utv.Model.C07Spec
import Utv.Lemmas.C07Map
import Utv.Lemmas.C07Trace
import Utv.Lemmas.C07Core
import Utv.Lemmas.C07Fresh
/-!
C07 — data-class instances stay valid under every sequence of mutations.

For every well-formed declaration `C` (any number of fields; required / optional / immutable / aliased /
no_output / getter-property fields; every option combination), every converter world `W` that satisfies
`Laws` (a converter's result conforms — C01's statement, taken as a hypothesis here; property getters may
raise and their results may fail to convert), every value type and every finite history of public mutating
operations on any number of instances obtained by `copy()`.  The constructor is not modelled: `Valid` is
assumed for the state handed to `__post_init__` (the oracle checks it on the real instance every run).

Headline:
* `C07_step`, `C07_init`, `C07_reachable`   every instance satisfies `Valid` (present fields conform, fields sit under
  their output name, additions are of the addition type, required fields are present, a no_output field is not
  under the keys, an output field absent from the keys is absent from `__dict__`) after every operation;
* `C07_views_agree`, `C07_views_no_output`  what "attribute view = key view" means here and that `Valid` gives it: for
  every alias, `in` / `[]` see the key; the attribute reads that very value, or (absent) nothing but the deferred
  default.  A conforming constructor copy in `__dict__` of a field still under the keys is allowed: neither view shows it;
* `C07_raise_unchanged`                     a single-key operation that raises leaves the instance as it was — including a
  recomputed property whose result does not convert (the setter puts the state back);
* `C07_copy_isolated`, `C07_copy_equal`     an operation on one instance changes no other; a copy equals its original;
* `C07_immutable_step`, `C07_immutable`, `C07_class_immutable`   immutable fields hold their initial value in every
  instance; on an `Options(immutable=True)` instance no operation changes the keys or a field's attribute;
* `C07_no_raw`, `C07_no_raw_attrs`          every value under the keys / in `__dict__` under a field's attribute was there
  before or is one of the operation's own arguments converted by the addressed field's type, a converted property
  result, or an accepted addition;
* `C07_fresh_step_partial`, `C07_fresh_init`, `C07_fresh_reachable_partial`   stored properties equal their converted getter
  on the current attribute values — no totality assumption on getters — *outside the known defect* `knownDefect`
  (decidable; `C07_knownDefect_succeeds`: it only flags operations that go through): an operation that removes a
  field while a property computed from it stays stored.  `C07_stale_dependant_witness`: the full statement is false
  for the code as it is; the harness replays that witness on the real code (KNOWN-FINDING);
* `C07_dataclass_step/_reachable/_raise_unchanged/_immutable/_immutable_history`   the attribute-based `DataClass`;
* `C07_accessor_own`, `C07_dataclass_setattr_inherited`, `C07_dataclass_delattr_inherited`, `C07_schema_setattr_inherited`
  inheritance: the attribute of a field (declared, narrowed or inherited) reaches the accessor bound to the
  instance's own class, whatever the bases carry;
* `C07_nested_immutable_class`              an instance of an `Options(immutable=True)` class built inside a data class that
  does not override cannot be changed by any operation.

Not headline (they restate or instantiate the model; the content is tied by the correspondence run only):
`C07_nested_instance_options_restates_model`, `C07_nested_reachable`.

Witnesses: `C07_legacy_*_witness` — the behaviour before `fixes/C07-mutators.patch` and before
`fixes/C07-recompute-failure.patch` (model flag `lg = true`) violates `Valid`, immutability, "raise ⇒ unchanged" or
freshness, as kernel-checked counter-examples.

The full statement that does not hold:
  theorem C07_fresh_step (h : Fresh C W s) : Fresh C W (step false C W s op).1        -- false, see witness
-/
namespace Utv.C07
open Map
variable {V : Type} {C : Cls} {W : World V} {conf : String → V → Prop} {addOk : V → Prop}

/-! ### Valid is an invariant -/

/-- **C07 (one operation).**  Whatever the operation and its argument, and whether it raises or not,
a valid instance stays valid. -/
theorem C07_step (hwf : WF C) (hl : Laws W conf addOk) (s : State V) (op : Op V) (h : Valid C conf addOk s) :
    Valid C conf addOk (step false C W s op).1 :=
  Trace.preserves (strict := false) (xs := op.args) (Valid C conf addOk) (fun s p hs hok => valid_prim hwf hl s p hs hok)
    (step_trace hwf s op (fun e => by cases e)) h

/-- an invariant kept by every recomputation holds for the instance the constructor hands out -/
theorem postInit_preserves (P : State V → Prop)
    (hP : ∀ s p, P s → p ∈ C.fields → p.isProp = true → (coerce false C W s p).2 = false → P (co C W s p))
    (s s' : State V) (h : P s) (hi : postInit C W s = some s') : P s' := by
  unfold postInit at hi
  suffices ∀ (l : List Field), (∀ p ∈ l, p ∈ C.fields ∧ p.isProp = true) → ∀ s : State V,
      P s → postInitList C W s l = some s' → P s' from
    this _ (fun p hp => by simpa using hp) s h hi
  intro l
  induction l with
  | nil => intro _ s h hi; simp only [postInitList, Option.some.injEq] at hi; rw [← hi]; exact h
  | cons p l ih =>
    intro hl' s h hi
    simp only [postInitList] at hi
    cases hc : coerce false C W s p with
    | mk s1 b =>
      rw [hc] at hi
      cases b with
      | true => simp at hi
      | false =>
        have := hP s p h (hl' p (by simp)).1 (hl' p (by simp)).2 (by rw [hc])
        have e : co C W s p = s1 := by simp [co, hc]
        rw [e] at this
        exact ih (fun q hq => hl' q (by simp [hq])) s1 this hi

/-- the instance the constructor hands out (`__post_init__` computes the properties) is valid -/
theorem C07_init (hwf : WF C) (hl : Laws W conf addOk) (s s' : State V) (h : Valid C conf addOk s)
    (hi : postInit C W s = some s') : Valid C conf addOk s' :=
  postInit_preserves (Valid C conf addOk) (fun s p h hp hpp _ => valid_coerce hwf hl h hp hpp) s s' h hi

theorem hstep_all (P : State V → Prop) (hP : ∀ s op, P s → P (step false C W s op).1) (h : List (State V))
    (op : HOp V) (hh : ∀ s ∈ h, P s) : ∀ s ∈ (hstep false C W h op).1, P s := by
  cases op with
  | on i o =>
    simp only [hstep]
    cases hi : h[i]? with
    | none => exact hh
    | some t =>
      intro s hs
      have ht : t ∈ h := List.mem_of_getElem? hi
      rcases List.mem_or_eq_of_mem_set hs with h1 | h1
      · exact hh s h1
      · rw [h1]; exact hP t o (hh t ht)
  | copy i =>
    simp only [hstep]
    cases hi : h[i]? with
    | none => exact hh
    | some t =>
      intro s hs
      rcases List.mem_append.mp hs with h1 | h1
      · exact hh s h1
      · simp at h1; rw [h1]; exact hh t (List.mem_of_getElem? hi)

theorem hrun_all (P : State V → Prop) (hP : ∀ s op, P s → P (step false C W s op).1) (ops : List (HOp V)) :
    ∀ h : List (State V), (∀ s ∈ h, P s) → ∀ s ∈ hrun false C W h ops, P s := by
  induction ops with
  | nil => intro h hh; exact hh
  | cons op ops ih =>
    intro h hh
    simp only [hrun, List.foldl_cons]
    exact ih _ (hstep_all P hP h op hh)

/-- **C07 (every history).**  After any finite sequence of public mutating operations, on any number
of instances obtained by `copy()`, every instance is valid. -/
theorem C07_reachable (hwf : WF C) (hl : Laws W conf addOk) (s0 s1 : State V) (h0 : Valid C conf addOk s0)
    (hi : postInit C W s0 = some s1) (ops : List (HOp V)) : ∀ s ∈ hrun false C W [s1] ops, Valid C conf addOk s :=
  hrun_all _ (fun s op h => C07_step hwf hl s op h) ops _ (by
    intro s hs
    simp at hs
    rw [hs]
    exact C07_init hwf hl s0 s1 h0 hi)

/-- **C07 (copies are independent).**  An operation on one instance leaves every other instance
(the original of a copy, or a copy of it) exactly as it was. -/
theorem C07_copy_isolated (h : List (State V)) (i j : Nat) (op : Op V) (hij : i ≠ j) :
    (hstep false C W h (.on i op)).1[j]? = h[j]? := by
  simp only [hstep]
  cases hi : h[i]? with
  | none => rfl
  | some s => simp [List.getElem?_set_ne hij]

/-- `copy()` hands out an instance equal to the original and leaves the existing ones alone -/
theorem C07_copy_equal (h : List (State V)) (i : Nat) (s : State V) (hi : h[i]? = some s) :
    (hstep false C W h (.copy i)).1 = h ++ [s] := by
  simp [hstep, hi]

/-! ### a raising single-key operation changes nothing -/

theorem fieldSetter_clean (s : State V) (f : Field) (v : V) :
    (fieldSetter false C W s f v).1 = s ∨ ∃ x, (fieldSetter false C W s f v).2 = .ok x := by
  unfold fieldSetter
  split
  · exact Or.inl rfl
  · split
    · cases hc : coerce false C W s f with
      | mk s1 b =>
        cases b with
        | true => exact Or.inl rfl
        | false =>
          simp only
          cases hd : coerceDependants false C W s1 f with
          | mk s2 b2 =>
            cases b2 with
            | true => exact Or.inl rfl
            | false => exact Or.inr ⟨none, rfl⟩
    · split
      · exact Or.inl rfl
      · simp only
        split
        · exact Or.inl rfl
        · exact Or.inr ⟨none, rfl⟩

theorem setitem_clean (s : State V) (k : String) (v : V) :
    (setitem false C W s k v).1 = s ∨ ∃ x, (setitem false C W s k v).2 = .ok x := by
  unfold setitem
  split
  · exact Or.inl rfl
  · split
    · exact fieldSetter_clean s _ v
    · split
      · exact Or.inl rfl
      · split
        · exact Or.inl rfl
        · exact Or.inl rfl
        · exact Or.inr ⟨none, rfl⟩
        · split
          · exact Or.inl rfl
          · exact Or.inr ⟨none, rfl⟩

theorem fieldDeleter_clean (s : State V) (f : Field) :
    (fieldDeleter false C s f).1 = s ∨ ∃ x, (fieldDeleter false C s f).2 = .ok x := by
  unfold fieldDeleter
  split
  · exact Or.inl rfl
  · split
    · exact Or.inl rfl
    · split
      · exact Or.inl rfl
      · exact Or.inr ⟨none, rfl⟩

theorem pop_clean (s : State V) (k : String) (d : Option V) :
    (pop false C s k d).1 = s ∨ ∃ x, (pop false C s k d).2 = .ok x := by
  unfold pop
  split
  · exact Or.inl rfl
  · split
    · split
      · exact Or.inr ⟨_, rfl⟩
      · exact Or.inl rfl
    · split
      · exact Or.inl rfl
      · split
        · exact Or.inl rfl
        · split
          · exact Or.inr ⟨_, rfl⟩
          · split <;> exact Or.inl rfl

theorem setitems_single_clean (s : State V) (kvs : List (String × V)) (hk : kvs.length ≤ 1) :
    (setitems false C W s kvs).1 = s ∨ ∃ x, (setitems false C W s kvs).2 = .ok x := by
  match kvs, hk with
  | [], _ => exact Or.inl rfl
  | [(k, v)], _ =>
    simp only [setitems]
    have hc := setitem_clean (C := C) (W := W) s k v
    cases hr : setitem false C W s k v with
    | mk s' r =>
      rw [hr] at hc
      cases r with
      | ok _ => exact Or.inr ⟨none, rfl⟩
      | err e' =>
        rcases hc with h1 | ⟨x, h1⟩
        · exact Or.inl h1
        · cases h1
  | _ :: _ :: _, hk => simp at hk

theorem step_clean (s : State V) (op : Op V) (hk : op.singleKey = true) :
    (step false C W s op).1 = s ∨ ∃ x, (step false C W s op).2 = .ok x := by
  cases op with
  | setattr a v =>
    simp only [step, setattr]
    split
    · split
      · exact Or.inl rfl
      · exact fieldSetter_clean s _ v
    · exact Or.inr ⟨none, rfl⟩
  | delattr a =>
    simp only [step, delattr]
    split
    · split
      · exact Or.inl rfl
      · exact fieldDeleter_clean s _
    · split
      · exact Or.inr ⟨none, rfl⟩
      · exact Or.inl rfl
  | setitem k v => exact setitem_clean s k v
  | delitem k =>
    simp only [step, delitem]
    split
    · exact Or.inl rfl
    · split
      · exact fieldDeleter_clean s _
      · split
        · exact Or.inr ⟨none, rfl⟩
        · exact Or.inl rfl
  | update kvs =>
    simp only [step, update]
    split
    · exact Or.inl rfl
    · exact setitems_single_clean s kvs (by simpa [Op.singleKey] using hk)
  | ior kvs =>
    simp only [step, Bool.false_eq_true, if_false, update]
    split
    · exact Or.inl rfl
    · exact setitems_single_clean s kvs (by simpa [Op.singleKey] using hk)
  | pop k d => exact pop_clean s k d
  | popitem =>
    simp only [step, popitem, Bool.false_eq_true, if_false]
    split
    · exact Or.inl rfl
    · split
      · exact Or.inl rfl
      · exact pop_clean s _ none
  | setdefault k v =>
    simp only [step, setdefault, Bool.false_eq_true, if_false]
    split
    · exact Or.inl rfl
    · have hc := setitem_clean (C := C) (W := W) s k v
      cases hr : setitem false C W s k v with
      | mk s' r =>
        rw [hr] at hc
        cases r with
        | ok _ => exact Or.inr ⟨_, rfl⟩
        | err e' =>
          rcases hc with h1 | ⟨x, h1⟩
          · exact Or.inl h1
          · cases h1
  | clear =>
    simp only [step, clear]
    split
    · exact Or.inl rfl
    · split
      · exact Or.inl rfl
      · exact Or.inr ⟨none, rfl⟩

/-- **C07 (raise ⇒ unchanged).**  A single-key operation that raises leaves the instance as it was. -/
theorem C07_raise_unchanged (s : State V) (op : Op V) (e : Exc) (hk : op.singleKey = true)
    (h : (step false C W s op).2 = .err e) : (step false C W s op).1 = s := by
  rcases step_clean (C := C) (W := W) s op hk with h1 | ⟨x, h1⟩
  · exact h1
  · rw [h1] at h; cases h

/-! ### immutable fields -/

/-- **C07 (immutable, one operation).**  No operation changes what either view stores for an
immutable field. -/
theorem C07_immutable_step (hwf : WF C) {f : Field} (hf : f ∈ C.fields) (hi : f.immutable = true) (s : State V)
    (op : Op V) : stored (step false C W s op).1 f = stored s f :=
  Trace.preserves (strict := false) (xs := op.args) (fun t => stored t f = stored s f)
    (fun t p ht hok => by rw [stored_prim hwf hf hi t p hok]; exact ht)
    (step_trace (W := W) hwf s op (fun e => by cases e)) rfl

/-- **C07 (immutable, every history).**  In every instance reachable from the constructed one (copies
included) an immutable field holds the value the constructor gave it. -/
theorem C07_immutable (hwf : WF C) {f : Field} (hf : f ∈ C.fields) (hi : f.immutable = true) (s0 : State V)
    (ops : List (HOp V)) : ∀ s ∈ hrun false C W [s0] ops, stored s f = stored s0 f :=
  hrun_all (fun t => stored t f = stored s0 f)
    (fun s op h => by rw [C07_immutable_step hwf hf hi s op]; exact h) ops _ (by
      intro s hs
      simp at hs
      rw [hs])

/-! ### nothing unparsed enters -/

theorem trace_prov (hwf : WF C) {strict : Bool} {xs : List V} {s t : State V} (h : Trace strict xs C W s t) :
    Prov C W xs s t := by
  induction h with
  | refl s => exact Prov.refl xs s
  | step p hp _ ih => exact (prov_prim hwf _ p hp).trans ih

/-- **C07 (no raw data, keys).**  Every value under the keys after an operation was there before, or is one
of the operation's own arguments converted by the addressed field's type, or a converted property result,
or an accepted addition (converted when the addition type is declared). -/
theorem C07_no_raw (hwf : WF C) (s : State V) (op : Op V) (k : String) (v : V)
    (h : (step false C W s op).1.data.get k = some v) : Origin C W op.args s k v :=
  (trace_prov hwf (step_trace (strict := false) hwf s op (fun e => by cases e))).1 k v h

/-- **C07 (no raw data, `__dict__`).**  Every value in `__dict__` under a field's attribute name (no_output
fields) was there before or is an argument converted by that field's type; only a name that is no field can
hold a raw argument. -/
theorem C07_no_raw_attrs (hwf : WF C) (s : State V) (op : Op V) (a : String) (v : V)
    (h : (step false C W s op).1.attrs.get a = some v) : OriginAttr C W op.args s a v :=
  (trace_prov hwf (step_trace (strict := false) hwf s op (fun e => by cases e))).2 a v h

/-! ### dependent properties: partial (known defect `stale-dependant-after-delete`) -/

/-- **C07 (properties recomputed, partial).**  Outside `knownDefect` every stored property still equals its
getter (converted) applied to the current attribute values after the operation — whether the getters raise,
their results convert, or not. -/
theorem C07_fresh_step_partial (hwf : WF C) (s : State V) (op : Op V)
    (h : Fresh C W s) (hd : knownDefect C s op = false) : Fresh C W (step false C W s op).1 :=
  Trace.preserves (strict := true) (xs := op.args) (Fresh C W) (fun s p hs hok => fresh_prim hwf s p hs hok)
    (step_trace hwf s op (fun _ => hd)) h

theorem C07_fresh_init (hwf : WF C) (s s' : State V) (h : Fresh C W s) (hi : postInit C W s = some s') :
    Fresh C W s' :=
  postInit_preserves (Fresh C W) (fun s p h hp hpp hok => fresh_coerce hwf hp hpp h hok) s s' h hi

/-- no operation of the history falls into the known defect (evaluated along the run) -/
def hNoDefect (C : Cls) (W : World V) : List (State V) → List (HOp V) → Bool
  | _, [] => true
  | h, op :: ops =>
    (match op with
      | .on i o => (match h[i]? with
        | some s => !knownDefect C s o
        | none => true)
      | .copy _ => true) && hNoDefect C W (hstep false C W h op).1 ops

/-- **C07 (properties recomputed, every history, partial).** -/
theorem C07_fresh_reachable_partial (hwf : WF C)
    (ops : List (HOp V)) : ∀ h : List (State V), (∀ s ∈ h, Fresh C W s) → hNoDefect C W h ops = true →
      ∀ s ∈ hrun false C W h ops, Fresh C W s := by
  induction ops with
  | nil => intro h hh _; exact hh
  | cons op ops ih =>
    intro h hh hnd
    simp only [hNoDefect, Bool.and_eq_true] at hnd
    simp only [hrun, List.foldl_cons]
    refine ih _ ?_ hnd.2
    cases op with
    | on i o =>
      simp only [hstep]
      cases hi : h[i]? with
      | none => exact hh
      | some t =>
        intro s hs
        have hk : knownDefect C t o = false := by simpa [hi] using hnd.1
        rcases List.mem_or_eq_of_mem_set hs with h1 | h1
        · exact hh s h1
        · rw [h1]; exact C07_fresh_step_partial hwf t o (hh t (List.mem_of_getElem? hi)) hk
    | copy i =>
      simp only [hstep]
      cases hi : h[i]? with
      | none => exact hh
      | some t =>
        intro s hs
        rcases List.mem_append.mp hs with h1 | h1
        · exact hh s h1
        · simp at h1; rw [h1]; exact hh t (List.mem_of_getElem? hi)

/-! ### DataClass -/

/-- **C07 (DataClass, one operation).** -/
theorem C07_dataclass_step (hwf : WF C) (hl : Laws W conf addOk) (s : State V) (op : Op V) (h : DcValid C conf s) :
    DcValid C conf (dcStep C W s op).1 := by
  cases op with
  | setattr a v =>
    simp only [dcStep, dcSetattr]
    split
    · rename_i ha
      have hne : ∀ g ∈ C.fields, g.attname ≠ a := fun g hg => fieldByAtt_none ha hg
      refine ⟨?_, ?_⟩
      · intro g hg v' hv
        simp only [get_set, hne g hg, if_false] at hv
        exact h.confAttr g hg v' hv
      · intro g hg hr hi
        simp only [has_set, hne g hg, decide_false, Bool.false_or]
        exact h.required g hg hr hi
    · rename_i f hf
      obtain ⟨hfm, _⟩ := fieldByAtt_some hf
      split
      · exact h
      · split
        · exact h
        · rename_i pv hpv
          refine ⟨?_, ?_⟩
          · intro g hg v' hv
            simp only [get_set] at hv
            by_cases e : g.attname = f.attname
            · have := att_inj hwf hg hfm e
              subst this
              simp only [if_true] at hv
              cases hv
              exact hl.parseSound _ _ _ hpv
            · simp only [e, if_false] at hv
              exact h.confAttr g hg v' hv
          · intro g hg hr hi
            simp only [has_set]
            simp [h.required g hg hr hi]
  | delattr a =>
    simp only [dcStep, dcDelattr]
    split
    · rename_i ha
      have hne : ∀ g ∈ C.fields, g.attname ≠ a := fun g hg => fieldByAtt_none ha hg
      split
      · refine ⟨?_, ?_⟩
        · intro g hg v' hv
          simp only [get_del, hne g hg, if_false] at hv
          exact h.confAttr g hg v' hv
        · intro g hg hr hi
          simp only [has_del, hne g hg, decide_false, Bool.not_false, Bool.true_and]
          exact h.required g hg hr hi
      · exact h
    · rename_i f hf
      obtain ⟨hfm, _⟩ := fieldByAtt_some hf
      split
      · exact h
      · split
        · exact h
        · rename_i hreq
          split
          · exact h
          · refine ⟨?_, ?_⟩
            · intro g hg v' hv
              simp only [get_del] at hv
              split at hv
              · cases hv
              · exact h.confAttr g hg v' hv
            · intro g hg hr hi
              have hgf : g ≠ f := by
                intro e
                subst e
                simp [hr, hi] at hreq
              have hna : g.attname ≠ f.attname := fun e => hgf (att_inj hwf hg hfm e)
              simp only [has_del, hna, decide_false, Bool.not_false, Bool.true_and]
              exact h.required g hg hr hi
  | _ => exact h

/-- **C07 (DataClass, every history).** -/
theorem C07_dataclass_reachable (hwf : WF C) (hl : Laws W conf addOk) (ops : List (Op V)) :
    ∀ s : State V, DcValid C conf s → DcValid C conf (dcRun C W s ops) := by
  induction ops with
  | nil => intro s h; exact h
  | cons op ops ih =>
    intro s h
    simp only [dcRun, List.foldl_cons]
    exact ih _ (C07_dataclass_step hwf hl s op h)

/-- **C07 (DataClass, raise ⇒ unchanged).** -/
theorem C07_dataclass_raise_unchanged (s : State V) (op : Op V) (e : Exc) (h : (dcStep C W s op).2 = .err e) :
    (dcStep C W s op).1 = s := by
  have hc : (dcStep C W s op).1 = s ∨ ∃ x, (dcStep C W s op).2 = .ok x := by
    cases op with
    | setattr a v =>
      simp only [dcStep, dcSetattr]
      split
      · exact Or.inr ⟨none, rfl⟩
      · split
        · exact Or.inl rfl
        · split
          · exact Or.inl rfl
          · exact Or.inr ⟨none, rfl⟩
    | delattr a =>
      simp only [dcStep, dcDelattr]
      split
      · split
        · exact Or.inr ⟨none, rfl⟩
        · exact Or.inl rfl
      · split
        · exact Or.inl rfl
        · split
          · exact Or.inl rfl
          · split
            · exact Or.inl rfl
            · exact Or.inr ⟨none, rfl⟩
    | _ => exact Or.inl rfl
  rcases hc with h1 | ⟨x, h1⟩
  · exact h1
  · rw [h1] at h; cases h

/-- **C07 (DataClass, immutable).** -/
theorem C07_dataclass_immutable (hwf : WF C) {f : Field} (hf : f ∈ C.fields) (hi : f.immutable = true) (s : State V)
    (op : Op V) : (dcStep C W s op).1.attrs.get f.attname = s.attrs.get f.attname := by
  cases op with
  | setattr a v =>
    simp only [dcStep, dcSetattr]
    split
    · rename_i ha
      simp [get_set, fieldByAtt_none ha hf]
    · rename_i g hg
      obtain ⟨hgm, _⟩ := fieldByAtt_some hg
      split
      · rfl
      · rename_i him
        split
        · rfl
        · have hgf : f ≠ g := by
            intro e
            subst e
            simp [hi] at him
          have hna : f.attname ≠ g.attname := fun e => hgf (att_inj hwf hf hgm e)
          simp [get_set, hna]
  | delattr a =>
    simp only [dcStep, dcDelattr]
    split
    · rename_i ha
      split
      · simp [get_del, fieldByAtt_none ha hf]
      · rfl
    · rename_i g hg
      obtain ⟨hgm, _⟩ := fieldByAtt_some hg
      split
      · rfl
      · rename_i him
        split
        · rfl
        · split
          · rfl
          · have hgf : f ≠ g := by
              intro e
              subst e
              simp [hi] at him
            have hna : f.attname ≠ g.attname := fun e => hgf (att_inj hwf hf hgm e)
            simp [get_del, hna]
  | _ => rfl

/-! ### class-level immutability, the two views, tightness of the known defect -/

/-- **C07 (immutable class).**  On an instance governed by `Options(immutable=True)` no operation changes the
keys or the attribute of any field, whatever the arguments (a plain instance attribute that is no field can
still be set). -/
theorem C07_class_immutable (hi : C.opts.immutable = true) (s : State V) (op : Op V) :
    (step false C W s op).1.data = s.data ∧
      ∀ f ∈ C.fields, (step false C W s op).1.attrs.get f.attname = s.attrs.get f.attname := by
  cases op with
  | setattr a v =>
    simp only [step, setattr]
    cases ha : fieldByAtt C a with
    | some f => by_cases hp : f.isProp = true <;> simp [hp, fieldSetter, hi]
    | none =>
      refine ⟨rfl, ?_⟩
      intro f hf
      simp [get_set, fieldByAtt_none ha hf]
  | delattr a =>
    simp only [step, delattr]
    cases ha : fieldByAtt C a with
    | some f => by_cases hp : f.isProp = true <;> simp [hp, fieldDeleter, hi]
    | none =>
      by_cases hh : s.attrs.has a = true
      · refine ⟨by simp [hh], ?_⟩
        intro f hf
        simp [hh, get_del, fieldByAtt_none ha hf]
      · simp [hh]
  | setitem k v => simp [step, setitem, hi]
  | delitem k => simp [step, delitem, hi]
  | update kvs => simp [step, update, hi]
  | ior kvs => simp [step, update, hi]
  | pop k d => simp [step, pop, hi]
  | popitem => simp [step, popitem, hi]
  | setdefault k v =>
    simp only [step, setdefault, Bool.false_eq_true, if_false]
    by_cases hc : contains C s k = true <;> simp [hc, setitem, hi]
  | clear => simp [step, clear, hi]

/-- `knownDefect` is tight: an operation it flags does go through (so no raising — harmless — operation is
excluded from the partial theorems). -/
theorem C07_knownDefect_succeeds (hwf : WF C) (s : State V) (op : Op V) (h : knownDefect C s op = true) :
    ∃ r, (step false C W s op).2 = .ok r := by
  unfold knownDefect at h
  cases ht : removalTarget C s op with
  | none => simp [ht] at h
  | some f =>
    simp only [ht, Bool.and_eq_true, Bool.not_eq_true', List.any_eq_true] at h
    obtain ⟨⟨⟨⟨h1, h2⟩, h3⟩, h4⟩, q, hq, _⟩ := h
    have hv : ∃ v, s.data.get f.name = some v := (has_iff _ _).mp h4
    obtain ⟨v, hv⟩ := hv
    -- a field with dependants is no property
    have hnp : f ∈ C.fields → f.isProp = false := by
      intro hf
      cases hp : f.isProp with
      | false => rfl
      | true =>
        rw [(hwf.propPlain f hf hp).2.2.2] at hq
        cases hq
    have hdel : ∀ hf : f ∈ C.fields, ∃ r, (fieldDeleter false C s f).2 = .ok r := by
      intro _
      exact ⟨none, by simp [fieldDeleter, h1, h2, h3, h4]⟩
    have hpop : ∀ k d, getField C k = some f → ∃ r, (pop false C s k d).2 = .ok r := by
      intro k d hk
      exact ⟨some v, by simp [pop, h1, h2, h3, hk, hv]⟩
    cases op with
    | delattr a =>
      simp only [removalTarget] at ht
      have hf := (fieldByAtt_some ht).1
      simp only [step, delattr, ht, hnp hf, Bool.false_eq_true, if_false]
      exact hdel hf
    | delitem k =>
      simp only [removalTarget] at ht
      have hf := (getField_some ht).1
      simp only [step, delitem, h1, ht, Bool.false_eq_true, if_false]
      exact hdel hf
    | pop k d =>
      simp only [removalTarget] at ht
      exact hpop k d ht
    | popitem =>
      simp only [removalTarget] at ht
      cases hl : s.data.lastKey with
      | none => simp [hl] at ht
      | some k =>
        simp only [hl, Option.bind_some] at ht
        simp only [step, popitem, h1, hl, Bool.false_eq_true, if_false]
        exact hpop k none ht
    | setattr _ _ => simp [removalTarget] at ht
    | setitem _ _ => simp [removalTarget] at ht
    | update _ => simp [removalTarget] at ht
    | ior _ => simp [removalTarget] at ht
    | setdefault _ _ => simp [removalTarget] at ht
    | clear => simp [removalTarget] at ht

/-- **C07 (attribute view = key view).**  Reading: the *attribute view* is what `obj.<attname>` returns, the *key
view* what `obj[key]` / `key in obj` return for any alias of the field.  For a declared output field they
agree: present under the keys ⇒ the attribute reads that very value; absent ⇒ the attribute raises (or gives the
deferred default) — a `__dict__` copy never shows through.  (`__dict__` may keep the constructor's conforming
copy of a field that is still under the keys: `Valid.confAttr`; it is not readable through either view.) -/
theorem C07_views_agree (hwf : WF C) (s : State V) (h : Valid C conf addOk s) {f : Field} (hf : f ∈ C.fields)
    (hp : f.isProp = false) (hno : f.noOutput = false) :
    (∀ k ∈ f.aliases, contains C s k = s.data.has f.name ∧ getitem C s k = s.data.get f.name) ∧
    (∀ v, s.data.get f.name = some v → getattr C W s f = some v) ∧
    (s.data.get f.name = none → getattr C W s f = W.deferred f.name) := by
  refine ⟨?_, ?_, ?_⟩
  · intro k hk
    simp [contains, getitem, getField_of_mem hwf hf hk]
  · intro v hv
    simp [getattr, hp, fieldGet, hv]
  · intro hn
    simp [getattr, hp, fieldGet, hn, h.viewsOut f hf hno hn]

/-- … and a no_output field lives in the attribute view only -/
theorem C07_views_no_output (hwf : WF C) (s : State V) (h : Valid C conf addOk s) {f : Field} (hf : f ∈ C.fields)
    (hp : f.isProp = false) (hno : f.noOutput = true) :
    (∀ k ∈ f.aliases, contains C s k = false) ∧
    getattr C W s f = (s.attrs.get f.attname).orElse (fun _ => W.deferred f.name) := by
  have hn := h.viewsNo f hf hno
  refine ⟨?_, ?_⟩
  · intro k hk
    simp [contains, getField_of_mem hwf hf hk, (has_false_iff _ _).mpr hn]
  · simp only [getattr, hp, fieldGet, hn, Bool.false_eq_true, if_false]
    cases s.attrs.get f.attname <;> rfl

/-- **C07 (DataClass, immutable, every history).** -/
theorem C07_dataclass_immutable_history (hwf : WF C) {f : Field} (hf : f ∈ C.fields) (hi : f.immutable = true)
    (ops : List (Op V)) : ∀ s : State V, (dcRun C W s ops).attrs.get f.attname = s.attrs.get f.attname := by
  induction ops with
  | nil => intro s; rfl
  | cons op ops ih =>
    intro s
    simp only [dcRun, List.foldl_cons]
    have := ih (dcStep C W s op).1
    simp only [dcRun] at this
    rw [this, C07_dataclass_immutable hwf hf hi s op]

/-! ### inheritance: an attribute name reaches the accessor of the instance's own class -/

theorem own_find_none {a : String} (h : fieldByAtt C a = none) :
    (assignProperties C).find? (fun x => x.attname == a) = none := by
  rw [List.find?_eq_none]
  intro x hx
  simp only [assignProperties, List.mem_map, List.mem_filter] at hx
  obtain ⟨g, ⟨hg, _⟩, rfl⟩ := hx
  simpa using fieldByAtt_none h hg

/-- **C07 (inheritance).**  Whatever accessors the base classes carry, the attribute of a field — declared
in the class body, narrowed there, or merely inherited — reaches the accessor bound to the class's own field
declaration and own options. -/
theorem C07_accessor_own (hwf : WF C) (bases : List (List Accessor)) {f : Field} (hf : f ∈ C.fields)
    (hp : f.isProp = false) :
    resolveAccessor (assignProperties C :: bases) f.attname = some { attname := f.attname, field := f, opts := C.opts } := by
  have hmem : ({ attname := f.attname, field := f, opts := C.opts } : Accessor) ∈ assignProperties C := by
    simp only [assignProperties, List.mem_map, List.mem_filter]
    exact ⟨f, ⟨hf, by simp [hp]⟩, rfl⟩
  simp only [resolveAccessor]
  cases h : (assignProperties C).find? (fun x => x.attname == f.attname) with
  | none =>
    have := List.find?_eq_none.mp h _ hmem
    simp at this
  | some x =>
    have hx := List.mem_of_find?_eq_some h
    have hxa : x.attname = f.attname := by simpa using List.find?_some h
    simp only [assignProperties, List.mem_map, List.mem_filter] at hx
    obtain ⟨g, ⟨hg, _⟩, rfl⟩ := hx
    have : g = f := att_inj hwf hg hf hxa
    subst this
    rfl

/-- **C07 (inheritance, DataClass).**  Attribute assignment and deletion on an instance of a derived class
behave as the class's own declaration says (`dcSetattr`, `dcDelattr` — what `C07_dataclass_*` are about),
independently of the base classes' accessors. -/
theorem C07_dataclass_setattr_inherited (hwf : WF C) (hnp : ∀ f ∈ C.fields, f.isProp = false)
    (bases : List (List Accessor)) (hb : ∀ a, fieldByAtt C a = none → resolveAccessor bases a = none)
    (s : State V) (a : String) (v : V) :
    dcSetattrVia (assignProperties C :: bases) W s a v = dcSetattr C W s a v := by
  unfold dcSetattrVia dcSetattr
  cases hfa : fieldByAtt C a with
  | none => simp [resolveAccessor, own_find_none hfa, hb a hfa]
  | some f =>
    obtain ⟨hf, rfl⟩ := fieldByAtt_some hfa
    rw [C07_accessor_own hwf bases hf (hnp f hf)]
    rfl

theorem C07_dataclass_delattr_inherited (hwf : WF C) (hnp : ∀ f ∈ C.fields, f.isProp = false)
    (bases : List (List Accessor)) (hb : ∀ a, fieldByAtt C a = none → resolveAccessor bases a = none)
    (s : State V) (a : String) :
    dcDelattrVia (assignProperties C :: bases) s a = dcDelattr C s a := by
  unfold dcDelattrVia dcDelattr
  cases hfa : fieldByAtt C a with
  | none => simp [resolveAccessor, own_find_none hfa, hb a hfa]
  | some f =>
    obtain ⟨hf, rfl⟩ := fieldByAtt_some hfa
    rw [C07_accessor_own hwf bases hf (hnp f hf)]
    rfl

/-- **C07 (inheritance, Schema).**  The attribute path of a declared field of a derived Schema is the
model's `setattr`, i.e. it converts with the class's own field (and the item path never used accessors). -/
theorem C07_schema_setattr_inherited (hwf : WF C) (bases : List (List Accessor)) (s : State V) {a : String}
    {f : Field} (hfa : fieldByAtt C a = some f) (hp : f.isProp = false) (v : V) :
    setattrVia (assignProperties C :: bases) C W s a v = setattr false C W s a v := by
  obtain ⟨hf, rfl⟩ := fieldByAtt_some hfa
  unfold setattrVia setattr
  rw [C07_accessor_own hwf bases hf hp, hfa]
  simp [hp]

/-! ### nested instances: which options govern them -/

theorem wf_instanceCls (hwf : WF C) (enc : Option Opts) : WF (instanceCls C enc) :=
  ⟨hwf.nameMem, hwf.attMem, hwf.disjoint, hwf.propPlain, hwf.depsPlain, hwf.depsListed, hwf.depNames⟩

/-- Restates the model's rule `contextOptions`/`instanceOpts` (its content is the model, tied to
`Options.make_context` by the correspondence run on nested instances): own class options unless the enclosing
ones say `override` and the own do not; then the enclosing immutable / ignore_required /
ignore_delete_nonexistent (additions always follow the own class). -/
theorem C07_nested_instance_options_restates_model (own : Opts) (enc : Option Opts) :
    (enc = none → instanceOpts own enc = own) ∧
    (∀ c, enc = some c → (c.override = false ∨ own.override = true) → instanceOpts own enc = own) ∧
    (∀ c, enc = some c → c.override = true → own.override = false →
      instanceOpts own enc = { c with addition := own.addition }) := by
  refine ⟨?_, ?_, ?_⟩
  · intro h; subst h; rfl
  · intro c h hc
    subst h
    cases own
    rcases hc with hc | hc <;> simp_all [instanceOpts, contextOptions]
  · intro c h h1 h2
    subst h
    simp [instanceOpts, contextOptions, h1, h2]

/-- `C07_reachable` instantiated at the declaration a nested instance is governed by -/
theorem C07_nested_reachable (hwf : WF C) (hl : Laws W conf addOk) (enc : Option Opts) (s0 s1 : State V)
    (h0 : Valid (instanceCls C enc) conf addOk s0) (hi : postInit (instanceCls C enc) W s0 = some s1)
    (ops : List (HOp V)) :
    ∀ s ∈ hrun false (instanceCls C enc) W [s1] ops, Valid (instanceCls C enc) conf addOk s :=
  C07_reachable (wf_instanceCls hwf enc) hl s0 s1 h0 hi ops

/-- **C07 (nested instance of an immutable class).**  An instance of a class declared `Options(immutable=True)`
that was built inside a data class which does not override: no operation changes its keys or a field's
attribute (combines the option rule with `C07_class_immutable`). -/
theorem C07_nested_immutable_class (own c : Opts) (hi : C.opts = own) (him : own.immutable = true)
    (hc : c.override = false) (s : State V) (op : Op V) :
    (step false (instanceCls C (some c)) W s op).1.data = s.data ∧
      ∀ f ∈ C.fields, (step false (instanceCls C (some c)) W s op).1.attrs.get f.attname = s.attrs.get f.attname := by
  have : (instanceCls C (some c)).opts.immutable = true := by
    simp only [instanceCls]
    rw [hi, (C07_nested_instance_options_restates_model own (some c)).2.1 c rfl (Or.inl hc)]
    exact him
  exact C07_class_immutable (C := instanceCls C (some c)) this s op

end Utv.C07

/-! ### non-vacuity, the known defect, and the behaviour before the repair (kernel-checked witnesses) -/
namespace Utv.C07
open Map

/-- values are numbers: below 100 is valid, 1000..1099 is convertible (to the last two digits), the rest is invalid -/
def cv (x : Nat) : Option Nat :=
  if x < 100 then some x else if 1000 ≤ x ∧ x < 1100 then some (x - 1000) else none

def W₀ : World Nat where
  parse _ x := cv x
  parseAdd x := cv x
  getter _ xs := if xs.sum = 13 then none else some xs.sum     -- the getters raise on 13
  convert _ raw := if raw < 50 then some raw else none          -- results of 50 and more do not convert
  deferred _ := none

def conf₀ (_ : String) (v : Nat) : Prop := v < 100
def addOk₀ (v : Nat) : Prop := v < 100

def fB : Field := { attname := "b", name := "b", aliases := ["b"], required := true }
def fC : Field := { attname := "c", name := "c@", aliases := ["c@", "c"], dependants := ["p"] }
def fM : Field := { attname := "m", name := "m", aliases := ["m"], immutable := true }
def fP : Field := { attname := "p", name := "p", aliases := ["p"], isProp := true, deps := ["c@"] }

/-- `class K(Schema): __options__ = Options(addition=int); b: int; c: int = Field(alias='c@', required=False);
m: int = Field(immutable=True, required=False); @property p -> computed from c` -/
def C₀ : Cls := { fields := [fB, fC, fM, fP], opts := { addition := .typed } }

/-- `K(b=1, c=2, m=3)` as handed to `__post_init__`, and after it -/
def s₀₀ : State Nat := { data := [("b", 1), ("c@", 2), ("m", 3)], attrs := [("b", 1), ("c", 2), ("m", 3)] }
def s₀ : State Nat := (postInit C₀ W₀ s₀₀).getD s₀₀

theorem cv_lt {x v : Nat} (h : cv x = some v) : v < 100 := by
  unfold cv at h
  split at h
  · cases h; assumption
  · split at h
    · simp only [Option.some.injEq] at h; omega
    · cases h

theorem laws₀ : Laws W₀ conf₀ addOk₀ :=
  ⟨fun _ _ _ h => cv_lt h, fun _ _ h => cv_lt h, fun _ raw v h => by
    simp only [W₀] at h
    split at h
    · simp only [Option.some.injEq] at h
      subst h
      unfold conf₀
      omega
    · cases h⟩

theorem init₀ : postInit C₀ W₀ s₀₀ = some s₀ := by decide

theorem mem₀ {f : Field} (h : f ∈ C₀.fields) : f = fB ∨ f = fC ∨ f = fM ∨ f = fP := by
  simpa [C₀] using h

theorem wf₀ : WF C₀ := by
  refine ⟨?_, ?_, ?_, ?_, ?_, ?_, ?_⟩
  · decide
  · decide
  · intro f hf g hg k h1 h2
    exact (by decide : ∀ f ∈ C₀.fields, ∀ g ∈ C₀.fields, ∀ k ∈ f.aliases, k ∈ g.aliases → f = g) f hf g hg k h1 h2
  · decide
  · decide
  · decide
  · intro f hf q hq p hg
    have := (by decide : ∀ f ∈ C₀.fields, ∀ q ∈ f.dependants, (getField C₀ q).all (fun p => p.name == q) = true) f hf q hq
    rw [hg] at this
    simpa using this

/-- what the keys of `s₀₀` are -/
theorem data₀₀ {k : String} {v : Nat} (h : s₀₀.data.get k = some v) :
    (k = "b" ∧ v = 1) ∨ (k = "c@" ∧ v = 2) ∨ (k = "m" ∧ v = 3) := by
  have h : Map.get [("b", 1), ("c@", 2), ("m", 3)] k = some v := h
  simp only [get_cons, get_nil] at h
  split at h
  · cases h; exact Or.inl ⟨by assumption |> Eq.symm, rfl⟩
  · split at h
    · cases h; exact Or.inr (Or.inl ⟨by assumption |> Eq.symm, rfl⟩)
    · split at h
      · cases h; exact Or.inr (Or.inr ⟨by assumption |> Eq.symm, rfl⟩)
      · cases h

theorem valid₀₀ : Valid C₀ conf₀ addOk₀ s₀₀ := by
  refine ⟨?_, ?_, ?_, ?_, ?_, ?_, ?_, ?_⟩
  · intro k v f hk hg
    rcases data₀₀ hk with ⟨rfl, _⟩ | ⟨rfl, _⟩ | ⟨rfl, _⟩
    · have : getField C₀ "b" = some fB := by decide
      rw [this] at hg; cases hg; rfl
    · have : getField C₀ "c@" = some fC := by decide
      rw [this] at hg; cases hg; rfl
    · have : getField C₀ "m" = some fM := by decide
      rw [this] at hg; cases hg; rfl
  · intro f _ v hv
    rcases data₀₀ hv with ⟨_, rfl⟩ | ⟨_, rfl⟩ | ⟨_, rfl⟩ <;> (unfold conf₀; omega)
  · intro f hf v hv
    rcases mem₀ hf with rfl | rfl | rfl | rfl <;> simp [s₀₀, get_cons, fB, fC, fM, fP] at hv <;>
      (subst hv; unfold conf₀; omega)
  · intro k v hk hg
    exfalso
    rcases data₀₀ hk with ⟨rfl, _⟩ | ⟨rfl, _⟩ | ⟨rfl, _⟩ <;> exact absurd hg (by decide)
  · intro f hf hr _
    rcases mem₀ hf with rfl | rfl | rfl | rfl <;> first | decide | (exact absurd hr (by decide))
  · intro f hf hn
    rcases mem₀ hf with rfl | rfl | rfl | rfl <;> exact absurd hn (by decide)
  · intro f hf _ hnone
    rcases mem₀ hf with rfl | rfl | rfl | rfl <;> first | decide | (exact absurd hnone (by decide))
  · intro f hf hp
    rcases mem₀ hf with rfl | rfl | rfl | rfl <;> first | decide | (exact absurd hp (by decide))

theorem fresh₀₀ : Fresh C₀ W₀ s₀₀ := by
  intro p hp hpp v hv
  rcases mem₀ hp with rfl | rfl | rfl | rfl <;> first | (exact absurd hpp (by decide)) | skip
  have hn : s₀₀.data.get fP.name = none := by decide
  rw [hn] at hv
  cases hv

/-- non-vacuity: the hypotheses of the theorems are satisfiable together, on an instance with a required,
an aliased, an immutable and a property field -/
example : ∃ (C : Cls) (W : World Nat) (s s' : State Nat), WF C ∧ Laws W conf₀ addOk₀ ∧
    Valid C conf₀ addOk₀ s ∧ Fresh C W s ∧ postInit C W s = some s' :=
  ⟨C₀, W₀, s₀₀, s₀, wf₀, laws₀, valid₀₀, fresh₀₀, init₀⟩

/-- … and they cover histories in which operations change the state and raise -/
example : s₀.data = [("b", 1), ("c@", 2), ("m", 3), ("p", 2)] := by decide
example : (hrun false C₀ W₀ [s₀] [.on 0 (.setitem "c" 1007), .copy 0, .on 1 (.pop "c@" none), .on 0 (.setattr "m" 5)]).map
    (·.data) = [[("b", 1), ("c@", 7), ("m", 3), ("p", 7)], [("b", 1), ("m", 3), ("p", 7)]] := by decide
example : hNoDefect C₀ W₀ [s₀] [.on 0 (.setitem "c" 1007), .on 0 (.setattr "m" 5), .on 0 (.delitem "p"),
    .on 0 (.delitem "c")] = true := by decide

/-- **Known defect (stale-dependant-after-delete).**  The full freshness statement is false for the code
as it is: deleting `c` (schema.py:394-420 recomputes nothing) leaves the property `p` stored with the
value computed from the deleted `c`. -/
theorem C07_stale_dependant_witness :
    Fresh C₀ W₀ s₀ ∧ knownDefect C₀ s₀ (.delitem "c") = true ∧
      ¬ Fresh C₀ W₀ (step false C₀ W₀ s₀ (.delitem "c")).1 := by
  refine ⟨C07_fresh_init wf₀ s₀₀ s₀ fresh₀₀ init₀, by decide, ?_⟩
  intro h
  have := (h fP (by decide) rfl 2 (by decide)).1
  exact absurd this (by decide)

/-- Why `C07_accessor_own` matters: a subclass `K'` narrows `b` (its converter accepts only 0..9) and
is declared immutable.  Through its own accessor table an invalid / any assignment is refused; were the base's
accessor reached instead (base table first), the value would be stored in an instance of `K'`. -/
def fB' : Field := { fB with required := false }
def C₀' : Cls := { fields := [fB', fC, fM, fP], opts := { addition := .typed, immutable := true } }

example : (dcSetattrVia [assignProperties C₀', assignProperties C₀] W₀ s₀₀ "b" 7).2 = .err .update := by decide
example : (dcSetattrVia [assignProperties C₀] W₀ s₀₀ "b" 7).1.attrs.get "b" = some 7 := by decide

/-- non-vacuity of the hypotheses `hnp` / `hb` of `C07_dataclass_setattr_inherited` with a real base table:
a class without properties derived from a base that declares the same attributes otherwise -/
def C₁ : Cls := { fields := [fB', fC, fM], opts := { immutable := true } }
def C₁base : Cls := { fields := [fB, { fC with noOutput := true }, { fM with immutable := false }] }

theorem hb₁ : ∀ a, fieldByAtt C₁ a = none → resolveAccessor [assignProperties C₁base] a = none := by
  intro a h
  have h1 : a ≠ "b" := fun e => by subst e; exact absurd h (by decide)
  have h2 : a ≠ "c" := fun e => by subst e; exact absurd h (by decide)
  have h3 : a ≠ "m" := fun e => by subst e; exact absurd h (by decide)
  have e1 : ("b" == a) = false := by simpa using fun e => h1 e.symm
  have e2 : ("c" == a) = false := by simpa using fun e => h2 e.symm
  have e3 : ("m" == a) = false := by simpa using fun e => h3 e.symm
  simp [resolveAccessor, assignProperties, C₁base, fB, fC, fM, List.find?, e1, e2, e3]

example : WF C₁ ∧ (∀ f ∈ C₁.fields, f.isProp = false) ∧
    dcSetattrVia (assignProperties C₁ :: [assignProperties C₁base]) W₀ s₀₀ "b" 7 = dcSetattr C₁ W₀ s₀₀ "b" 7 := by
  have hwf : WF C₁ := by
    refine ⟨by decide, by decide, ?_, by decide, by decide, by decide, ?_⟩
    · intro f hf g hg k h1 h2
      exact (by decide : ∀ f ∈ C₁.fields, ∀ g ∈ C₁.fields, ∀ k ∈ f.aliases, k ∈ g.aliases → f = g) f hf g hg k h1 h2
    · intro f hf q hq p hg
      have := (by decide : ∀ f ∈ C₁.fields, ∀ q ∈ f.dependants, (getField C₁ q).all (fun p => p.name == q) = true) f hf q hq
      rw [hg] at this
      simpa using this
  have hnp : ∀ f ∈ C₁.fields, f.isProp = false := by decide
  exact ⟨hwf, hnp, C07_dataclass_setattr_inherited hwf hnp _ hb₁ s₀₀ "b" 7⟩

/-! getters that raise, results that do not convert: the branches the freshness theorems now cover -/

/-- `c = 13` makes the getter of `p` raise: the stale value is dropped, the assignment succeeds -/
example : (step false C₀ W₀ s₀ (.setitem "c" 13)).1.data = [("b", 1), ("c@", 13), ("m", 3)] ∧
    (step false C₀ W₀ s₀ (.setitem "c" 13)).2 = .ok none := by decide

/-- `c = 77` gives a result that does not convert: the assignment raises and nothing changed -/
example : step false C₀ W₀ s₀ (.setitem "c" 77) = (s₀, .err .parse) := by decide

/-- Before `fixes/C07-recompute-failure.patch`: the error left the instance with `c` already assigned and `p`
computed from the old `c` — a raising single-key operation that changed the data. -/
theorem C07_legacy_raise_after_update_witness :
    (step true C₀ W₀ s₀ (.setitem "c" 77)).2 = .err .parse ∧
      (step true C₀ W₀ s₀ (.setitem "c" 77)).1.data = [("b", 1), ("c@", 77), ("m", 3), ("p", 2)] := by decide

/-- Before the repair: a raising getter left the old value of the property stored (stale without any deletion). -/
theorem C07_legacy_stale_on_getter_error_witness :
    (step true C₀ W₀ s₀ (.setitem "c" 13)).1.data = [("b", 1), ("c@", 13), ("m", 3), ("p", 2)] ∧
      ¬ Fresh C₀ W₀ (step true C₀ W₀ s₀ (.setitem "c" 13)).1 := by
  refine ⟨by decide, ?_⟩
  intro h
  have := (h fP (by decide) rfl 2 (by decide)).1
  exact absurd this (by decide)

/-! the behaviour before `fixes/C07-mutators.patch` (`lg = true`) -/

/-- `dict.setdefault`: the raw, non-conforming value lands under the raw key `c`, which is not the
output name of the field it resolves to. -/
theorem C07_legacy_setdefault_raw_witness :
    ¬ Valid C₀ conf₀ addOk₀ (step true C₀ W₀ (step false C₀ W₀ s₀ (.delitem "c")).1 (.setdefault "c" 500)).1 := by
  intro h
  have := h.keyName "c" 500 fC (by decide) (by decide)
  exact absurd this (by decide)

/-- the repaired `setdefault` refuses the same call and changes nothing -/
example : (step false C₀ W₀ (step false C₀ W₀ s₀ (.delitem "c")).1 (.setdefault "c" 500)).2 = .err .parse := by decide

/-- `dict.__ior__`: an immutable field is overwritten with an unparsed value. -/
theorem C07_legacy_ior_witness :
    stored (step true C₀ W₀ s₀ (.ior [("m", 500)])).1 fM ≠ stored s₀ fM := by decide

example : (step false C₀ W₀ s₀ (.ior [("m", 500)])).2 = .err .update := by decide

/-- `dict.popitem`: a required field is removed. -/
theorem C07_legacy_popitem_witness :
    present (step true C₀ W₀ { data := [("b", 1)], attrs := [("b", 1)] } .popitem).1 fB = false := by decide

example : (step false C₀ W₀ { data := [("b", 1)], attrs := [("b", 1)] } .popitem).2 = .err .delete := by decide

/-- `__setitem__` with a typed addition stored the raw value: 1005 converts to 5, the raw 1005 is stored. -/
theorem C07_legacy_addition_raw_witness :
    (step true C₀ W₀ s₀ (.setitem "x" 1005)).1.data.get "x" = some 1005 ∧
      (step false C₀ W₀ s₀ (.setitem "x" 1005)).1.data.get "x" = some 5 := by decide

/-- `__field_deleter__` looked for the output name in `__dict__` but popped the attribute name: for an
aliased field the attribute copy survives and the attribute view disagrees with the keys. -/
theorem C07_legacy_deleter_witness :
    ¬ Valid C₀ conf₀ addOk₀ (step true C₀ W₀ s₀ (.delitem "c")).1 := by
  intro h
  have := h.viewsOut fC (by decide) rfl (by decide)
  exact absurd this (by decide)

/-- `pop` never touched `__dict__`: the popped field is still readable as an attribute. -/
theorem C07_legacy_pop_witness :
    ¬ Valid C₀ conf₀ addOk₀ (step true C₀ W₀ s₀ (.pop "c" none)).1 := by
  intro h
  have := h.viewsOut fC (by decide) rfl (by decide)
  exact absurd this (by decide)

end Utv.C07
