"""C03 — parsing is idempotent; lax constraints converge in one step.

Same machinery as C02 (T1-generated validators + correspondence), with the lax validators and declarations that use
`Lax(...)`; every accepted value is parsed a second time on the real code.
"""
from __future__ import annotations

import json
import math
from decimal import Decimal

from . import c02
from .c02 import C02, LAXABLE, Undefined, digit_counts, sat
from .pyval import decode, encode

LAX_NAMES = ["lax_" + n for n in LAXABLE]


def impl(case):
    """C02's adapter, plus: a lax validator is applied a second time and followed by its strict form."""
    out = c02.impl(case)
    if case["op"] == "validator" and case["name"].startswith("lax_") and "ok" in out:
        from utype.parser.rule import Constraints
        r, b = decode(out["ok"]), decode(case["bound"])

        def run(name):
            try:
                return {"ok": encode(getattr(Constraints, name)(r, b))}
            except RecursionError:
                return {"err": "RecursionError"}
            except Exception as e:
                return {"err": type(e).__name__}
        out["again"] = run(case["name"])
        out["strict"] = run(case["name"][4:])
    return out


def exact_domain(v) -> bool:
    if isinstance(v, bool):
        return True
    if isinstance(v, int) or isinstance(v, str):
        return True
    if isinstance(v, Decimal):
        return v.is_finite()
    if isinstance(v, (list, tuple)):
        return all(exact_domain(x) or x is None for x in v)
    return False


def same(a, b) -> bool:
    try:
        return type(a) is type(b) and (a == b or (a != a and b != b))
    except Exception:
        return False


class C03(C02):
    prop = "C03"
    props_modules = ["Utv.Props.C03"]
    impl = "harness.c03:impl"
    lax_mode = True
    decl_share = 0.0
    validator_names = LAX_NAMES + ["ge", "le", "length", "unique_items"]
    rule = ("(a) every lax validator on (value, bound) pairs at and around the bounds, applied twice and followed by its strict form; "
            "(b) declared types with 1-2 Lax(...) constraints (plus strict ones) applied to values of the source type and re-parsed; "
            "(c) operator audit.  non-trivial = the lax validator changed its input, or the value is within 1 of a bound, or the "
            "declaration has >= 2 constraints; distinct by (constraints, value)")

    def evaluate(self, cases):
        """C02's evaluation, plus: the model is also run on the *result* of every accepted declared-type parse (the re-parse),
        so that the second pass of the real code is tied to the model too (io['reparse_model'])."""
        impl_outs, model_outs = super().evaluate(cases)
        idx, derived = [], []
        for i, (c, io) in enumerate(zip(cases, impl_outs)):
            if isinstance(io, dict) and c.get("op") == "rule" and io.get("decl") == "ok" and "ok" in io.get("parse", {}) \
                    and "reparse" in io and io["parse"].get("type") == c.get("origin"):
                # (the model covers the validator phase on values of the source type; a result of another type would
                # first go through the origin conversion, which is C01/C12's model)
                d = dict(c)
                d["value"] = io["parse"]["ok"]
                idx.append(i)
                derived.append(d)
        if derived and self.driver:
            from .common import run_driver
            outs = run_driver(self.driver, [self.model_line(d) for d in derived])
            for i, mo in zip(idx, outs):
                impl_outs[i]["reparse_model"] = mo
        return impl_outs, model_outs

    def compare(self, case, io, mo):
        d = super().compare(case, io, mo)
        if d:
            return d
        rm = io.get("reparse_model") if isinstance(io, dict) else None
        if isinstance(rm, dict) and "unmodelled" not in rm and "driver-error" not in rm:
            rp = io.get("reparse", {})
            if "ok" in rp and "ok" in rm:
                if c02.canon(rp["ok"]) != c02.canon(rm["ok"]):
                    return f"re-parse result differs: impl {rp['ok']} model {rm['ok']}"
            elif not ("perr" in rp and "err" in rm):
                return f"re-parse verdict differs: impl {rp} model {rm}"
        return None

    def spec(self, case, io, mo):
        op = case["op"]
        if op == "validator":
            name = case["name"]
            if not name.startswith("lax_") or "ok" not in io:
                return None
            v, b, r = decode(case["value"]), decode(case["bound"]), decode(io["ok"])
            again = io.get("again", {})
            if "ok" not in again:
                return f"{name}({v!r}, {b!r}) = {r!r} but applying it again raises {again.get('err')}"
            r2 = decode(again["ok"])
            if not same(r, r2):
                return f"{name}({v!r}, {b!r}) = {r!r} is not a fixed point: second application gives {r2!r}"
            if exact_domain(v) and exact_domain(r) and (exact_domain(b) or isinstance(b, (list, tuple, set))):
                base = name[4:]
                try:
                    holds = sat(base, r, b)
                except Undefined:
                    return None
                except Exception:
                    return None
                if not holds or "ok" not in io.get("strict", {}):
                    return f"{name}({v!r}, {b!r}) = {r!r} does not satisfy the strict constraint {base}={b!r}"
            return None
        if op == "rule":
            if io.get("decl") != "ok":
                return None
            p = io["parse"]
            if "ok" not in p:
                return None
            v, r = decode(case["value"]), decode(p["ok"])
            rp = io.get("reparse", {})
            if r != r:
                # a NaN result (only reachable through a declared Lax(const=nan)/enum member, which the property
                # treats as trusted declaration data): "returns an equal value" is undefined for NaN -> oracle silent
                return None
            if "ok" not in rp:
                return f"T({v!r}) = {r!r} but T({r!r}) fails with {rp}; constraints {self._cs(case)} lax={case.get('lax')}"
            r2 = decode(rp["ok"])
            if not same(r, r2):
                return f"T({v!r}) = {r!r} but T({r!r}) = {r2!r}; constraints {self._cs(case)} lax={case.get('lax')}"
            return None
        return None

    def classify(self, case, io, why):
        # known finding lax-max-digits-carry: Lax(max_digits) rounding carries into a new digit
        lax_md = (case["op"] == "validator" and case["name"] == "lax_max_digits") or \
                 (case["op"] == "rule" and "max_digits" in case.get("lax", []))
        try:
            if lax_md:
                if case["op"] == "validator":
                    r, m = decode(io["ok"]), decode(case["bound"])
                else:
                    r, m = decode(io["parse"]["ok"]), dict(self._cs(case))["max_digits"]
                if isinstance(r, (Decimal, float, int)) and digit_counts(r)[0] > m:
                    return "lax-max-digits-carry"
        except Exception:
            pass
        # known finding lax-const-not-origin: Lax(const=c)/Lax(enum=[...]) hands back the declared value c, which is not an
        # instance of the origin type and which the origin conversion itself rejects (int origin, const=Lax(inf))
        if case["op"] == "rule" and ({"const", "enum"} & set(case.get("lax", []))) and "ok" in io.get("parse", {}) \
                and "perr" in io.get("reparse", {}):
            r = decode(io["parse"]["ok"])
            origin = {"int": int, "float": float, "str": str, "Decimal": Decimal, "bool": bool,
                      "list": list, "tuple": tuple, "set": set}.get(case.get("origin"))
            cs = self._cs(case)
            declared = ([cs["const"]] if "const" in cs and "const" in case["lax"] else []) + \
                       (list(cs["enum"]) if "enum" in cs and "enum" in case["lax"] and isinstance(cs["enum"], (list, tuple, set)) else [])
            if origin is not None and not isinstance(r, origin) and any(type(r) is type(d) and same(r, d) for d in declared):
                return "lax-const-not-origin"
        # known finding lax-result-not-revalidated: the value a Lax constraint produced violates another declared constraint
        if case["op"] == "rule" and case.get("lax") and len(case["constraints"]) >= 2 and "ok" in io.get("parse", {}):
            r = decode(io["parse"]["ok"])
            cs = self._cs(case)
            # (a) in the sequential, documented sense (Decimal padded by decimal_places before max_digits counts, etc.):
            # the model of the unchanged validators, run on the result, predicts exactly the re-parse the real code showed
            rm, rp = io.get("reparse_model"), io.get("reparse", {})
            if isinstance(rm, dict) and not same(r, decode(case["value"])):
                if ("err" in rm and "perr" in rp) or ("ok" in rm and "ok" in rp and c02.canon(rm["ok"]) == c02.canon(rp["ok"])):
                    return "lax-result-not-revalidated"
            for n, b in cs.items():
                try:
                    if b is not None and not sat(n, r, b):
                        return "lax-result-not-revalidated"
                except Undefined:
                    continue
                except Exception:
                    continue
        return None

    def key(self, case, io):
        try:
            if case["op"] == "validator" and case["name"].startswith("lax_") and "ok" in io:
                if json.dumps(io["ok"], sort_keys=True) != json.dumps(case["value"], sort_keys=True):
                    return json.dumps([case["name"], case["value"], case["bound"]], sort_keys=True)
        except Exception:
            pass
        return super().key(case, io)


CHECK = C03()
