import Utv.Model.C16
/-
C20 (second part) — small-step interleaving model of lookups in a shared `TypeRegistry`
(utype/utils/base.py:88-112 `resolve`, :75-86 the `decorator` of `register`), on top of the data types of
the sequential registry model `Utv.C16` (entries, detectors, class world).

One atomic step = one source line that touches `self._cache` / `self._registry`:

  res:cget   cached = self._cache.get(t)                         (with fixes/C20-registry-cache-lookup.patch)
  res:cchk   if self.cache and t in self._cache:                 (before that patch, `lg = true`)
  res:cget   return self._cache[t]                               (before that patch)
  res:iter   for detector, trans, priority in self._registry:    (one event per iteration: a list iterator
                                                                  holds an *index* into the live list)
  res:cset   self._cache[t] = trans
  reg:ins    self._registry.insert(0, (detector, f, priority))
  reg:sort   self._registry.sort(key=lambda v: -v[2])
  reg:clr    self._cache.clear()

Tied to the code by the correspondence run (harness/c20.py, op "registry").
-/
namespace Utv.C20.Reg
open Utv.C16 (World Entry Det lookup sortPrio)

inductive Op
  | res (t : Nat)
  | reg (e : Entry)
  deriving Repr

/-- what a `resolve` call gave back -/
inductive Res
  | fn (f : Option Nat)     -- a converter, or None
  | keyError
  deriving DecidableEq, Repr

inductive PC | start | cchk | cget | iter | cset | ins | sort | clr | fin
  deriving DecidableEq, Repr

def PC.label : PC → String
  | .start => "start" | .cchk => "res:cchk" | .cget => "res:cget" | .iter => "res:iter" | .cset => "res:cset"
  | .ins => "reg:ins" | .sort => "reg:sort" | .clr => "reg:clr" | .fin => "<fin>"

structure G where
  entries : List Entry
  cache   : List (Nat × Nat)        -- most recent first

structure Th where
  pc   : PC := .start
  ops  : List Op := []              -- operations still to do; the head is the one in progress
  idx  : Nat := 0                   -- position of the list iterator
  fn   : Nat := 0                   -- `trans`
  outs : List Res := []             -- results of the finished `resolve` calls, oldest first

/-- go to the first shared-state line of the next operation (`co`: the registry was created with cache=True).
A class that carries its own converter (shortcut attribute) is answered without touching shared state. -/
def begin (W : World) (co lg : Bool) (outs : List Res) : List Op → Th
  | [] => { pc := .fin, ops := [], outs := outs }
  | .res t :: rest =>
    match W.shortcut t with
    | some f => begin W co lg (outs ++ [.fn (some f)]) rest
    | none => { pc := if co then (if lg then .cchk else .cget) else .iter, ops := .res t :: rest, outs := outs }
  | .reg e :: rest => { pc := .ins, ops := .reg e :: rest, outs := outs }

/-- the operation in progress is over -/
def finish (W : World) (co lg : Bool) (t : Th) (r : Option Res) : Th :=
  begin W co lg (match r with | some r => t.outs ++ [r] | none => t.outs) t.ops.tail

def curClass (t : Th) : Nat := match t.ops with | .res c :: _ => c | _ => 0
def curEntry (t : Th) : Option Entry := match t.ops with | .reg e :: _ => some e | _ => none

def stepTh (W : World) (co lg : Bool) (g : G) (t : Th) : G × Th :=
  match t.pc with
  | .start => (g, begin W co lg t.outs t.ops)
  | .cchk =>
    (g, match lookup (curClass t) g.cache with
        | some _ => { t with pc := .cget }
        | none => { t with pc := .iter, idx := 0 })
  | .cget =>
    match lookup (curClass t) g.cache with
    | some f => (g, finish W co lg t (some (.fn (some f))))
    | none => if lg then (g, finish W co lg t (some .keyError)) else (g, { t with pc := .iter, idx := 0 })
  | .iter =>
    match g.entries[t.idx]? with
    | none => (g, finish W co lg t (some (.fn (W.fallback (curClass t)))))     -- base registry / default
    | some e =>
      if e.det.matches W (curClass t) then
        (if co then (g, { t with pc := .cset, fn := e.fn, idx := t.idx + 1 })
         else (g, finish W co lg t (some (.fn (some e.fn)))))
      else (g, { t with idx := t.idx + 1 })
  | .cset => ({ g with cache := (curClass t, t.fn) :: g.cache }, finish W co lg t (some (.fn (some t.fn))))
  | .ins =>
    match curEntry t with
    | some e => ({ g with entries := e :: g.entries }, { t with pc := .sort })
    | none => (g, t)
  | .sort => ({ g with entries := sortPrio g.entries }, { t with pc := .clr })
  | .clr => ({ g with cache := [] }, finish W co lg t none)
  | .fin => (g, t)

structure Sys where
  g  : G
  th : Nat → Th

def Sys.step (W : World) (co lg : Bool) (s : Sys) (k : Nat) : Sys :=
  let r := stepTh W co lg s.g (s.th k)
  { g := r.1, th := fun j => if j = k then r.2 else s.th j }

def run (W : World) (co lg : Bool) (s : Sys) (sched : List Nat) : Sys := sched.foldl (Sys.step W co lg) s

def init (g : G) (prog : Nat → List Op) : Sys where
  g := g
  th := fun k => { ops := prog k }

/-! ### Specification: the answer of a lookup that runs alone on the registrations made so far -/

def answer (W : World) (entries : List Entry) (t : Nat) : Option Nat :=
  match W.shortcut t with
  | some f => some f
  | none =>
    match entries.find? (fun e => e.det.matches W t) with
    | some e => some e.fn
    | none => W.fallback t

/-- results a list of operations has when run alone on `entries` (registrations change nothing here: the
theorems that use this are about programs without them) -/
def answers (W : World) (entries : List Entry) : List Op → List Res
  | [] => []
  | .res t :: rest => .fn (answer W entries t) :: answers W entries rest
  | .reg _ :: rest => answers W entries rest

def noRegister : List Op → Bool
  | [] => true
  | .res _ :: rest => noRegister rest
  | .reg _ :: _ => false

/-- the cache only remembers what a lookup would compute -/
def CacheOK (W : World) (entries : List Entry) (cache : List (Nat × Nat)) : Prop :=
  ∀ t f, lookup t cache = some f → ∃ e, entries.find? (fun e => e.det.matches W t) = some e ∧ e.fn = f

end Utv.C20.Reg
