import Utv.Lemmas.C20
namespace Utv.C20

structure StepOK (W : World) (g g' : G) (t t' : Th) : Prop where
  ginv : GInv W g'
  good : Good W g' t t'
  lock : g'.lock = g.lock
  pend : ∀ i ∈ g'.pending, i ∈ g.pending

theorem step_list {W : World} {g : G} {k : Nat} {t : Th} (G : GInv W g) (H : HInv W g t) (hpc : t.pc = .list) :
    StepOK W g (stepTh W false k g t).1 t (stepTh W false k g t).2 := by
  simp only [stepTh, hpc]
  simp only [HInv, hpc] at H
  obtain ⟨h1, h2, h3, h4, h5⟩ := H
  refine ⟨G, ?_, rfl, fun _ h => h⟩
  have : Good W g { t with names := g.pending } (advance W false { t with names := g.pending }) := by
    apply advance_G G
    show LoopF W g t.rn t.resolved t.clear t.exc g.pending
    refine { rnDef := by simp [h1], res := fun _ => h1, clr := by simp [h1, h2], exc0 := h4, nodup := by simpa [h1] using G.nodup,
             sub := by simp [h1], own := fun i hi => Or.inl hi, fty := h5, evVal := by simp [h1] }
  exact this

end Utv.C20
