"""C05 — data-class parsing implements the declared field contract.  (C06 reuses this module.)

A case is a JSON descriptor of a data class (fields with their `Field(...)` parameters, class `Options`), optional
runtime `Options`, and an input mapping.  The adapter builds the class through the public API
(`type(name, (Schema,), attrs)` with real `Field` / `Options` objects), calls `Cls.__from__(data, options=...)` — as
declared, and once per lookup strategy — and reports the instance mapping, `__dict__`, attribute access per field, or the
`ParseError` kind/item.  It also measures, in isolation, what the real leaf converters do with every input value
(`fp`, `addconv`): these tables instantiate the abstract `World` of the Lean model and of the oracle.

Correspondence: Lean `Utv.C05.initSchema` (model of the code) vs the real outcome.
Oracle (spec sweep): `contract()` below — a Python rendering of `Utv.C05.Spec.contract` written from
docs/en/references/field.md — evaluated on what the real code returned; it is also cross-checked against the Lean spec.
"""
from __future__ import annotations

import copy
import itertools
import json
import random

from .common import Check

MUT = "__mutable_default__"
TYPE_IDS = {"int": 0, "str": 1, "any": 2}
# the names `Schema` itself keeps out of fields and additions (exclude_vars of the Schema parser: its own members)
SCHEMA_EXCLUDED = ["__annotations__", "__class_getitem__", "__coerce_property__", "__contains__", "__delitem__", "__dict__",
                   "__doc__", "__field_deleter__", "__field_getter__", "__field_setter__", "__from__", "__getitem__",
                   "__init_subclass__", "__ior__", "__module__", "__name__", "__options__", "__parser__", "__parser_cls__",
                   "__post_init__", "__repr__", "__setitem__", "__str__", "__validate__", "__weakref__", "clear", "copy",
                   "pop", "popitem", "setdefault", "update"]


def own_excluded(cd):
    """names of a class body that are no fields: methods, `_private` attributes, ClassVar annotations"""
    return list(cd.get("methods") or []) + list(cd.get("privates") or []) + list(cd.get("classvars") or [])


def shares_mutable(a, b) -> bool:
    """some list/dict inside `a` is the very object found inside `b` (a default handed out without a full copy)"""
    def walk(x, acc):
        if isinstance(x, (list, dict, set)):
            acc.add(id(x))
        if isinstance(x, (list, dict, tuple, set, frozenset)):
            # an immutable container (tuple, frozenset) is walked through: what it HOLDS may be mutable
            for y in (x.values() if isinstance(x, dict) else x):
                walk(y, acc)
        return acc
    return bool(walk(a, set()) & walk(b, set()))
PREDS = {"falsy": 0, "none": 1}
PRED_FN = {"falsy": lambda v: not v, "none": lambda v: v is None}
OPT_DEFAULTS = {
    "mode": None, "addition": None, "ignore_required": False, "no_default": False, "defer_default": False,
    "force_default": None, "ignore_alias_conflicts": False, "collect_errors": False, "max_errors": None,
    "max_params": None, "min_params": None, "invalid_values": "throw", "case_insensitive": False,
}


def thaw(v):
    """a default as data -> the Python value: `{"__tuple__": [...]}` stands for a tuple (JSON has none)"""
    if isinstance(v, dict):
        if set(v) == {"__tuple__"}:
            return tuple(thaw(x) for x in v["__tuple__"])
        return {k: thaw(x) for k, x in v.items()}
    if isinstance(v, list):
        return [thaw(x) for x in v]
    return v


def vtext(v) -> str:
    try:
        return json.dumps(thaw(v), sort_keys=True)
    except Exception:
        return "<" + type(v).__name__ + ">"


# ------------------------------------------------------------------------------------------------
# adapter (runs in worker processes against the real utype)
# ------------------------------------------------------------------------------------------------

def _types():
    from typing import Any
    return {"int": int, "str": str, "any": Any}


def _flag(x):
    if isinstance(x, dict):
        return PRED_FN[x["pred"]]
    return x


def _field(fd):
    from utype import Field
    kw = {}
    if fd.get("alias") is not None:
        kw["alias"] = fd["alias"]
    if fd.get("alias_from"):
        kw["alias_from"] = list(fd["alias_from"])
    if fd.get("ci") is not None:
        kw["case_insensitive"] = fd["ci"]
    if fd.get("required") is not None:
        kw["required"] = fd["required"]
    d = fd.get("default")
    if d is not None:
        if d.get("factory"):
            val = thaw(d["v"])
            kw["default_factory"] = lambda val=val: copy.deepcopy(val)
        else:
            kw["default"] = thaw(copy.deepcopy(d["v"]))
    if fd.get("defer"):
        kw["defer_default"] = True
    if fd.get("no_input", False) is not False:
        kw["no_input"] = _flag(fd["no_input"])
    if fd.get("no_output", False) is not False:
        kw["no_output"] = _flag(fd["no_output"])
    if fd.get("mode") is not None:
        how = fd.get("mode_kw", "mode")
        if how == "readonly":
            kw["readonly"] = True
        elif how == "writeonly":
            kw["writeonly"] = True
        else:
            kw["mode"] = fd["mode"]
    if fd.get("deps"):
        kw["dependencies"] = list(fd["deps"])
    if fd.get("on_error") is not None:
        kw["on_error"] = fd["on_error"]
    return Field(**kw), kw


def _options(od, addition_type=None, force_dfs=None):
    from utype import Options
    kw = {}
    for k, dv in OPT_DEFAULTS.items():
        v = od.get(k, dv)
        if k == "force_default":
            if v is not None:
                kw[k] = thaw(copy.deepcopy(v["v"]))
            continue
        if v != dv or (k == "addition" and k in od):
            kw[k] = v
    if addition_type and od.get("addition") is True:
        kw["addition"] = _types()[addition_type]
    if "data_first_search" in od:
        kw["data_first_search"] = od["data_first_search"]
    if force_dfs is not None:
        kw["data_first_search"] = force_dfs
    if od.get("alias_generator"):
        kw["alias_generator"] = GENS[od["alias_generator"]]
    if od.get("alias_from_generator"):
        kw["alias_from_generator"] = GENS_FROM[od["alias_from_generator"]]
    return Options(**kw)


# Options(alias_generator=...) / Options(alias_from_generator=...): named functions, so that a declaration stays data
GENS = {"upper": lambda s: s.upper(), "x_": lambda s: "x_" + s}
GENS_FROM = {"cap": lambda s: s.capitalize(), "y_": lambda s: "y_" + s}
GEN_KEYS = ("alias_generator", "alias_from_generator")


def desugar(classes):
    """alias generators written out: a field without `alias` gets the generated output name, a field without
    `alias_from` the generated accepted key (field.md: the Field's own alias / alias_from override the generator) — of the
    class that DECLARES the field (its own `__options__`, else the first base's).  The adapter builds the real classes
    from the declarations as written (real callables in Options); the oracle and the model see the written-out form."""
    out = []
    for t, cd in enumerate(classes):
        o, _ = eff_opts(classes, t)
        g, gf = (o or {}).get("alias_generator"), (o or {}).get("alias_from_generator")
        cd2 = dict(cd)
        if g or gf:
            fs = []
            for fd in cd["fields"]:
                fd2 = dict(fd)
                if g and not fd.get("alias"):
                    fd2["alias"] = GENS[g](fd["attname"])
                if gf and not fd.get("alias_from"):
                    fd2["alias_from"] = [GENS_FROM[gf](fd["attname"])]
                fs.append(fd2)
            cd2["fields"] = fs
        if cd.get("opts"):
            cd2["opts"] = {k: v for k, v in cd["opts"].items() if k not in GEN_KEYS}
        out.append(cd2)
    return out


def classes_of(case, raw=False):
    """the declarations of the case in order (alias generators written out unless `raw`), and which of them is parsed"""
    cs = case["classes"] if "classes" in case else [case["cls"]]
    return (cs if raw else desugar(cs)), (case.get("target", 0) if "classes" in case else 0)


def eff_opts(classes, t):
    """the Options a class ends up with: its own `__options__`, else what the attribute lookup finds on its first base"""
    cd = classes[t]
    if "opts" not in cd:
        return {}, cd.get("addition_type")
    if cd["opts"] is not None:
        return cd["opts"], cd.get("addition_type")
    bases = cd.get("bases") or []
    return eff_opts(classes, bases[0]) if bases else ({}, None)


def fkey(fd):
    n = fd.get("alias") or fd["attname"]
    return n.lower() if fd.get("ci") else n


def flatten(classes, t):
    return _flatten(desugar(classes), t)


def _flatten(classes, t):
    """the declaration a class amounts to: the fields of its bases (each case-insensitive or not as its declaring
    class says), minus the dropped names, with the fields of its own body replacing those of the same name"""
    cd = classes[t]
    o, at = eff_opts(classes, t)
    fields = {}
    ann = {}
    excl = set(own_excluded(cd))
    if not (cd.get("bases") or []):
        excl.update(SCHEMA_EXCLUDED)
    for b in reversed(cd.get("bases") or []):
        fb = _flatten(classes, b)
        for fd in fb["fields"]:
            fields[fkey(fd)] = fd
        ann.update(fb["ann"])
        excl.update(fb["excl"])
    for a in cd.get("drops") or []:
        fields.pop(a, None)
    own_ci = bool((o or {}).get("case_insensitive"))
    own = []
    for fd in cd["fields"]:
        fd2 = dict(fd)
        fd2["ci"] = fd["ci"] if fd.get("ci") is not None else own_ci
        if fd.get("type", "any") is not None:
            fd2["type"] = ann[fd["attname"]] = fd.get("type", "any")
        else:
            # no annotation in this body: the type annotated in a base, however many levels up; else none at all
            fd2["type"] = ann.get(fd["attname"], "none")
        fields[fkey(fd2)] = fd2
        own.append(fd2)
    # a dependency names a field of the class that declares it (by any of its keys); subclasses take it over as a
    # dependency on that field's output name
    for fd2 in own:
        deps = []
        for d in fd2.get("deps") or []:
            hit = None
            for g in fields.values():
                gn = g.get("alias") or g["attname"]
                keys = [gn, g["attname"]] + list(g.get("alias_from") or [])
                if g.get("ci"):
                    keys = [k.lower() for k in keys] + [gn]
                if d in keys:
                    hit = gn
                    break
            deps.append(hit if hit is not None else d)
        fd2["deps"] = deps
    return {"fields": list(fields.values()), "opts": o, "addition_type": at, "ann": ann, "excl": excl}


def flat(case):
    classes, t = classes_of(case)
    return flatten(classes, t)


def _build(cd, bases=(), name="K"):
    from utype import Schema
    ns = {"__module__": __name__, "__qualname__": name, "__annotations__": {}}
    T = _types()
    defaults = {}
    for fd in cd["fields"]:
        f, kw = _field(fd)
        if fd.get("type", "any") is not None:
            ns["__annotations__"][fd["attname"]] = T[fd.get("type", "any")]
        # else: assigned without annotation - the annotation is the one inherited from the bases, if any
        if fd.get("bare"):
            ns[fd["attname"]] = kw["default"]          # `limit = 20`: a bare default, no Field
        else:
            ns[fd["attname"]] = f
        if "default" in kw:
            defaults[fd["attname"]] = kw["default"]
    for a in cd.get("drops") or []:
        ns[a] = ...
    for m in cd.get("methods") or []:
        def meth(self):
            return None
        meth.__name__, meth.__qualname__ = m, f"{name}.{m}"
        ns[m] = meth
    for a in cd.get("privates") or []:
        ns[a] = 1
    for a in cd.get("classvars") or []:
        from typing import ClassVar
        ns["__annotations__"][a] = ClassVar[int]
    if "opts" not in cd or cd["opts"] is not None:
        ns["__options__"] = _options(cd.get("opts") or {}, cd.get("addition_type"))
    return type(name, tuple(bases) or (Schema,), ns), defaults


def _build_all(classes):
    """declare the classes in order; a declaration that fails (ConfigError) is skipped with its subclasses"""
    from utype.utils import exceptions as exc
    import warnings
    warnings.simplefilter("ignore")
    built = []
    for i, cd in enumerate(classes):
        bases = cd.get("bases") or []
        if any(built[b][0] is None for b in bases):
            built.append((None, {}, "base failed"))
            continue
        try:
            cls, defaults = _build(cd, [built[b][0] for b in bases], f"K{i}")
            for b in bases:
                defaults = dict(built[b][1], **defaults)
            built.append((cls, defaults, None))
        except (exc.ConfigError, SyntaxError) as e:
            built.append((None, {}, type(e).__name__))
        except Exception as e:
            built.append((None, {}, "other:" + type(e).__name__))
    return built


def _err(e):
    from utype.utils import exceptions as exc
    k = type(e).__name__
    if isinstance(e, exc.DependenciesAbsenceError):
        return [k, sorted(e.absence_dependencies or [])]
    if isinstance(e, (exc.ParamsExceedError, exc.ParamsLackError)):
        return [k, None]
    return [k, getattr(e, "item", None)]


def _run(classes, target, built, runtime, data, force_dfs=None, all_errors=False):
    """parse with class number `target` (all classes of the case are declared by now); `all_errors`: the same options
    but collecting without a cap (every violation the strategy's loop handles)"""
    from utype.utils import exceptions as exc
    cls, defaults, err = built[target]
    if cls is None:
        return {"config_error": err}, None
    cd = flatten(classes, target)
    if runtime is not None:
        od, at = runtime, None
    elif force_dfs is not None or all_errors:
        # runtime options replace the class's wholesale: the class's own, with the strategy forced
        od, at = cd["opts"] or {}, cd.get("addition_type")
    else:
        od, at = None, None
    if od is not None and all_errors:
        od = dict(od, collect_errors=True, max_errors=None)
    opts = _options(od, at, force_dfs) if od is not None else None
    try:
        inst = cls.__from__(dict((k, copy.deepcopy(v)) for k, v in data), options=opts)
    except exc.CollectedParseError as e:
        return {"collected": [_err(x) for x in e.errors]}, cls
    except exc.ParseError as e:
        return {"raised": _err(e)}, cls
    except Exception as e:
        return {"escape": f"{type(e).__name__}: {e}"[:160]}, cls
    mapping = {k: vtext(v) for k, v in dict.items(inst)}
    attrs = {k: vtext(v) for k, v in inst.__dict__.items() if not (k.startswith("__") and k.endswith("__"))}
    ga = {}
    fresh = True
    for fd in cd["fields"]:
        a = fd["attname"]
        try:
            val = getattr(inst, a)
            ga[a] = vtext(val)
            if a in defaults and shares_mutable(val, defaults[a]):
                fresh = False
            forced = getattr(opts if opts is not None else getattr(cls, "__options__", None), "force_default", None)
            if isinstance(forced, (list, dict, tuple)) and shares_mutable(val, forced):
                fresh = False
        except AttributeError:
            ga[a] = None
        except Exception as e:
            ga[a] = "<raised " + type(e).__name__ + ">"
    contains = {}
    for k, _ in data:
        try:
            contains[k] = bool(k in inst)
        except Exception as e:
            contains[k] = "<raised " + type(e).__name__ + ">"
    return {"ok": {"mapping": mapping, "attrs": attrs, "getattr": ga, "fresh": fresh, "contains": contains}}, cls


def func_source(cd):
    """`def f(p0, p1, /, q0, *, k0, k1, **kw)`: the first `posonly` parameters positional-only, the next `poskw`
    positional-or-keyword, the rest keyword-only; every parameter's default is its Field"""
    atts = [fd["attname"] for fd in cd["fields"]]
    po, pk = cd.get("posonly", 0), cd.get("poskw", 0)
    decl = [f"{a}: T{i} = P{i}" for i, a in enumerate(atts)]
    parts = decl[:po] + (["/"] if po else []) + decl[po:po + pk]
    if decl[po + pk:]:
        parts += ["*"] + decl[po + pk:]
    if cd.get("kwargs"):
        parts.append("**kw")
    body = ", ".join(f"{a}={a}" for a in atts)
    return f"def f({', '.join(parts)}):\n    return dict({body}), {'kw' if cd.get('kwargs') else '{}'}\n"


def dup_positional(cd, nargs, data) -> bool:
    """a keyword that is an accepted key of a positional-or-keyword parameter already bound by position: Python's
    'got multiple values for argument' (TypeError), whatever the lookup strategy"""
    po = cd.get("posonly", 0)
    ci = bool((cd.get("opts") or {}).get("case_insensitive"))
    for i, fd in enumerate(desugar([cd])[0]["fields"]):     # alias generators written out
        if po <= i < min(nargs, po + cd.get("poskw", 0)):
            f = derive_field(fd, ci)
            for k, _ in data:
                if (k.lower() if f["ci"] else k) in f["acc"]:
                    return True
    return False


def _run_func(cd, data, force_dfs, all_errors=False, args=()):
    """a function with the same parameters (C06: functions reach the same two loops): keyword-only, or with leading
    positional-only / positional-or-keyword parameters called with positional arguments"""
    import warnings
    import utype
    from utype.utils import exceptions as exc
    warnings.simplefilter("ignore")
    T = _types()
    ns = {}
    try:
        for i, fd in enumerate(cd["fields"]):
            f, _ = _field(fd)
            ns[f"P{i}"], ns[f"T{i}"] = f, T[fd.get("type", "any")]
        exec(func_source(cd), ns)
        od = cd.get("opts", {})
        if all_errors:
            od = dict(od, collect_errors=True, max_errors=None)
        fn = utype.parse(ns["f"], options=_options(od, cd.get("addition_type"), force_dfs))
    except (exc.ConfigError, SyntaxError) as e:
        return {"config_error": type(e).__name__}
    except Exception as e:
        return {"config_error": "other:" + type(e).__name__}
    try:
        r, kw = fn(*copy.deepcopy(list(args)), **dict((k, copy.deepcopy(v)) for k, v in data))
    except exc.CollectedParseError as e:
        return {"collected": [_err(x) for x in e.errors]}
    except exc.ParseError as e:
        return {"raised": _err(e)}
    except TypeError as e:
        if dup_positional(cd, len(args), data) and "multiple values" in str(e):
            # what Python answers to a parameter given by position and again by keyword
            return {"raised": ["TypeError", None]}
        return {"escape": f"{type(e).__name__}: {e}"[:160]}
    except Exception as e:
        return {"escape": f"{type(e).__name__}: {e}"[:160]}
    m = {k: vtext(v) for k, v in r.items()}
    m.update({"**" + k: vtext(v) for k, v in kw.items()})
    return {"ok": {"mapping": m, "attrs": m, "getattr": {}}}


def partial_report(df, ff) -> bool:
    """both strategies failed and neither need have reported everything (fail-fast, or collected under a cap)"""
    return all("raised" in o or "collected" in o for o in (df, ff))


def impl(case):
    """as declared + once per strategy, on the real code; plus the leaf-converter tables"""
    from utype import type_transform
    runtime, data = case.get("runtime"), case["data"]
    if case.get("kind") == "func":
        cd = case["cls"]
        args = case.get("args") or []
        out = _run_func(cd, data, None, args=args)
        res = {"out": out, "func": True}
        if "config_error" not in out:
            res["df"] = _run_func(cd, data, True, args=args)
            res["ff"] = _run_func(cd, data, False, args=args)
            if partial_report(res["df"], res["ff"]):
                res["df_all"] = _run_func(cd, data, True, all_errors=True, args=args)
                res["ff_all"] = _run_func(cd, data, False, all_errors=True, args=args)
        return res
    classes, target = classes_of(case, raw=True)
    built = _build_all(classes)
    out, cls = _run(classes, target, built, runtime, data)
    res = {"out": out, "declared": [b[2] for b in built]}
    if "config_error" in out:
        return res
    res["df"], _ = _run(classes, target, built, runtime, data, True)
    res["ff"], _ = _run(classes, target, built, runtime, data, False)
    if partial_report(res["df"], res["ff"]):
        # every violation each strategy handles (C06: classifying a difference in WHICH error is reported first)
        res["df_all"], _ = _run(classes, target, built, runtime, data, True, all_errors=True)
        res["ff_all"], _ = _run(classes, target, built, runtime, data, False, all_errors=True)
    cd = flatten(classes, target)
    # leaf conversions in isolation (World.fp / World.addConv), per declared type - not per field of the real parser
    values = {vtext(v): v for _, v in data}
    fpt = {}
    for tn, T in _types().items():
        tab = {}
        for t, v in values.items():
            try:
                tab[t] = vtext(type_transform(copy.deepcopy(v), T))
            except Exception:
                tab[t] = None
        fpt[tn] = tab
    fpt["none"] = {t: t for t in values}
    res["fpt"] = fpt
    # the type each field of the real parser ended up with
    from typing import Any
    types = {}
    for f in cls.__parser__.fields.values():
        ty = f.type
        types[f.attname] = "none" if ty is None else ("any" if ty is Any else getattr(ty, "__name__", repr(ty)))
    res["types"] = types
    res["exclude_vars"] = sorted(cls.__parser__.exclude_vars)
    at = cd.get("addition_type")
    if at:
        tab = {}
        for t, v in values.items():
            try:
                tab[t] = vtext(type_transform(copy.deepcopy(v), _types()[at]))
            except Exception:
                tab[t] = None
        res["addconv"] = tab
    return res


# ------------------------------------------------------------------------------------------------
# the oracle: FieldContract in Python (rendering of Utv.C05.Spec.contract), independent of utype's code
# ------------------------------------------------------------------------------------------------

def norm_opts(od):
    o = dict(OPT_DEFAULTS)
    o["data_first_search"] = False
    o.update(od or {})
    if o["force_default"] is not None:
        o["ignore_required"] = True
    if not o["collect_errors"]:
        o["max_errors"] = None
    return o


def derive_field(fd, class_ci):
    """name and accepted keys as documented: output name = alias or attname; accepted = name, attname, alias_from"""
    name = fd.get("alias") or fd["attname"]
    acc = [name]
    for a in [fd["attname"]] + list(fd.get("alias_from") or []):
        if a not in acc:
            acc.append(a)
    ci = fd["ci"] if fd.get("ci") is not None else bool(class_ci)
    if ci:
        acc = [a.lower() for a in acc]
    req = fd.get("required")
    has_default = fd.get("default") is not None
    if isinstance(req, str):
        pass
    elif has_default:
        req = False
    elif req is None:
        req = True
    return {"attname": fd["attname"], "type": fd.get("type", "any") or "none", "name": name, "acc": acc, "ci": ci, "required": req,
            "default": fd.get("default"), "defer": bool(fd.get("defer")), "no_input": fd.get("no_input", False),
            "no_output": fd.get("no_output", False), "mode": fd.get("mode"), "deps": list(fd.get("deps") or []),
            "on_error": fd.get("on_error")}


def flag_on(fl, v, omode, fmode, static=False):
    own = False
    if fl is True:
        own = True
    elif isinstance(fl, dict):
        own = (not static) and bool(PRED_FN[fl["pred"]](v))
    elif isinstance(fl, str):
        own = omode is not None and omode in fl
    # `mode='rw'` lists the supported modes; no mode - or an empty one - supports all
    return own or (omode is not None and bool(fmode) and omode not in fmode)


def contract(case, fpt, addconv):
    cd = flat(case)
    copts = norm_opts(cd.get("opts"))
    o = norm_opts(case["runtime"]) if case.get("runtime") is not None else copts
    fields = [derive_field(fd, copts["case_insensitive"]) for fd in cd["fields"]]
    data = [(k, v) for k, v in case["data"]]
    omode = o["mode"]
    errs = []
    n = len(data)
    if o["max_params"] and n > o["max_params"]:
        errs.append(("ParamsExceedError", None))
    if o["min_params"] and n < o["min_params"]:
        errs.append(("ParamsLackError", None))

    def nk(f, k):
        return k.lower() if f["ci"] else k

    outs = []
    for f in fields:
        cands = [v for a in f["acc"] for k, v in data if nk(f, k) == a]
        never = flag_on(f["no_input"], None, omode, f["mode"], static=True)
        req = f["required"]
        required = (not o["ignore_required"]) and (not never) and (
            req is True or (isinstance(req, str) and omode is not None and omode in req))
        filled = None
        deferred = None
        d = o["force_default"] if o["force_default"] is not None else f["default"]
        if d is not None and not o["no_default"]:
            if f["defer"] or o["defer_default"]:
                deferred = vtext(d["v"])
            else:
                filled = vtext(d["v"])
        fo = {"f": f, "value": None, "errs": [], "provided": bool(cands), "active": False, "deferred": deferred}
        if not cands:
            if required:
                fo["errs"].append(("AbsenceError", f["name"]))
            else:
                fo["value"] = filled
        else:
            c = cands[0]
            if flag_on(f["no_input"], c, omode, f["mode"]):
                fo["value"] = filled
            else:
                if not o["ignore_alias_conflicts"] and any(vtext(x) != vtext(c) for x in cands[1:]):
                    fo["errs"].append(("AliasConflictError", f["name"]))
                r = (fpt.get(f["type"]) or {}).get(vtext(c))
                if r is not None:
                    fo["value"], fo["active"] = r, True
                else:
                    pol = f["on_error"] or o["invalid_values"]
                    if pol == "throw":
                        fo["errs"].append(("ParseError", f["name"]))
                    elif pol == "preserve":
                        fo["value"], fo["active"] = vtext(c), True
                    elif required:
                        # a required field cannot be excluded
                        fo["errs"].append(("ParseError", f["name"]))
                        fo["value"], fo["active"] = filled, filled is not None
                    else:
                        # dropped by 'exclude': the field counts as not given (its default applies, it satisfies
                        # nobody's dependency and demands none)
                        fo["value"], fo["provided"] = filled, False
        outs.append(fo)
        errs += fo["errs"]

    # dependencies of provided fields must be present (given in the input and held by the instance)
    by_key = {}
    for fo in outs:
        for a in fo["f"]["acc"]:
            by_key.setdefault(a, fo)
        by_key.setdefault(fo["f"]["name"], fo)
    lack = set()
    for fo in outs:
        if fo["active"]:
            for dname in fo["f"]["deps"]:
                t = by_key.get(dname)
                if t is None:
                    t = by_key.get(dname.lower())
                if t is None or not (t["provided"] and t["value"] is not None):
                    lack.add(t["f"]["name"] if t else dname)
    if lack:
        errs.append(("DependenciesAbsenceError", tuple(sorted(lack))))

    result = {fo["f"]["name"]: fo["value"] for fo in outs if fo["value"] is not None}
    attrs = {fo["f"]["attname"]: fo["value"] for fo in outs if fo["value"] is not None}
    mapping = {}
    for fo in outs:
        if fo["value"] is not None and not flag_on(fo["f"]["no_output"], json.loads(fo["value"]), omode, fo["f"]["mode"]):
            mapping[fo["f"]["name"]] = fo["value"]
    typed = bool(cd.get("addition_type")) and copts["addition"] is True
    for k, v in data:
        if any(nk(f, k) in f["acc"] for f in fields):
            continue
        if o["addition"] is False:
            errs.append(("ExceedError", k))
            continue
        if o["addition"] is None or k in cd["excl"]:
            # dropped; the names the class keeps for itself (methods, _private, ClassVar) are never kept
            continue
        val = vtext(v)
        if typed:
            r = addconv[vtext(v)]
            if r is None:
                if o["invalid_values"] == "exclude":
                    continue
                if o["invalid_values"] == "throw":
                    errs.append(("ParseError", k))
            else:
                val = r
        result[k] = mapping[k] = attrs[k] = val
    getattr_ = {}
    for fo in outs:
        f = fo["f"]
        getattr_[f["attname"]] = fo["value"] if fo["value"] is not None else fo["deferred"]
    # `key in inst` (Schema.__contains__): any accepted key of a field whose value is in the mapping
    contains = {}
    for k, _ in data:
        acc = [f for f in fields if nk(f, k) in f["acc"]]
        contains[k] = (acc[0]["name"] in mapping) if acc else (k in mapping)
    return {"o": o, "errs": errs, "result": result, "mapping": mapping, "attrs": attrs, "getattr": getattr_,
            "contains": contains}


def judge(out, want, what="instance"):
    """the property's predicate on one real outcome"""
    o = want["o"]
    errs = [(k, tuple(i) if isinstance(i, list) else i) for k, i in want["errs"]]
    if "escape" in out:
        return f"{what}: a non-ParseError exception escaped: {out['escape']}"
    if "ok" in out:
        if errs:
            return f"{what}: parsing succeeded although the contract is violated: {errs[:3]}"
        ok = out["ok"]
        if ok["mapping"] != want["mapping"]:
            return f"{what}: instance mapping {ok['mapping']} but the field rules prescribe {want['mapping']}"
        if ok["attrs"] != want["attrs"]:
            return f"{what}: attribute view (__dict__) {ok['attrs']} but the field rules prescribe {want['attrs']}"
        if ok["getattr"] != want["getattr"]:
            return f"{what}: attribute access gives {ok['getattr']} but the field rules prescribe {want['getattr']}"
        if not ok.get("fresh", True):
            return f"{what}: a mutable default was stored without being copied"
        if "contains" in ok and ok["contains"] != want["contains"]:
            return f"{what}: `key in instance` gives {ok['contains']} but the field rules prescribe {want['contains']}"
        return None
    if not errs:
        return f"{what}: parsing failed with {out} although the input satisfies the contract"
    if "raised" in out:
        if o["collect_errors"]:
            return f"{what}: collect_errors is on but a single error was raised: {out['raised']}"
        k, i = out["raised"]
        e = (k, tuple(i) if isinstance(i, list) else i)
        if e not in errs:
            return f"{what}: raised {e}, which is not one of the contract violations {errs}"
        return None
    got = [(k, tuple(i) if isinstance(i, list) else i) for k, i in out["collected"]]
    if not o["collect_errors"]:
        return f"{what}: errors were collected although collect_errors is off"
    if o["max_errors"] is not None:
        if not set(got) <= set(errs):
            return f"{what}: collected {got}, not all among the contract violations {errs}"
        if len(got) > max(o["max_errors"], 1):
            return f"{what}: {len(got)} errors collected, max_errors={o['max_errors']}"
        return None
    if set(got) != set(errs):
        return f"{what}: collected {sorted(set(got), key=str)} but the contract violations are {sorted(set(errs), key=str)}"
    return None


# ------------------------------------------------------------------------------------------------
# model line (strings → ids, measured tables → World)
# ------------------------------------------------------------------------------------------------

def key_table(case):
    ks = set()
    classes, _ = classes_of(case)
    for cd in classes:
        for fd in cd["fields"]:
            ks.add(fd["attname"])
            if fd.get("alias"):
                ks.add(fd["alias"])
            ks.update(fd.get("alias_from") or [])
            ks.update(fd.get("deps") or [])
        ks.update(cd.get("drops") or [])
        ks.update(own_excluded(cd))
    ks.update(k for k, _ in case["data"])
    for k in list(ks):
        ks.add(k.lower())
    keys = sorted(ks)
    return keys, {k: i for i, k in enumerate(keys)}


def modes(s):
    return [ord(c) for c in s]


def model_flag(x, ):
    if isinstance(x, dict):
        return {"pred": PREDS[x["pred"]]}
    if isinstance(x, str):
        return modes(x)
    return bool(x)


def model_opts(od):
    if od is None:
        return None
    o = {}
    for k, dv in OPT_DEFAULTS.items():
        v = od.get(k, dv)
        if k == "mode":
            o[k] = ord(v) if v else None
        elif k == "force_default":
            o[k] = {"v": vtext(v["v"])} if v is not None else None
        else:
            o[k] = v
    if "data_first_search" in od:
        o["data_first_search"] = od["data_first_search"]
    return o


def model_class(cd, ix):
    fields = []
    for fd in cd["fields"]:
        req = fd.get("required")
        d = fd.get("default")
        fields.append({
            "attname": ix[fd["attname"]], "ty": TYPE_IDS[fd.get("type", "any")] if fd.get("type", "any") is not None else None,
            "alias": ix[fd["alias"]] if fd.get("alias") else None,
            "alias_from": [ix[a] for a in fd.get("alias_from") or []], "ci": fd.get("ci"),
            "required": modes(req) if isinstance(req, str) else req,
            "default": {"v": vtext(d["v"])} if d is not None else None, "defer": bool(fd.get("defer")),
            "no_input": model_flag(fd.get("no_input", False)), "no_output": model_flag(fd.get("no_output", False)),
            "mode": modes(fd["mode"]) if fd.get("mode") is not None else None,
            "deps": [ix[a] for a in fd.get("deps") or []], "on_error": fd.get("on_error")})
    own = "opts" not in cd or cd["opts"] is not None
    od = cd.get("opts") or {}
    return {"fields": fields, "opts": model_opts(od) if own else None,
            "addition_typed": bool(cd.get("addition_type")) and od.get("addition") is True,
            "bases": list(cd.get("bases") or []), "drops": [ix[a] for a in cd.get("drops") or []],
            "excluded": [ix[a] for a in own_excluded(cd)]}


def model_line(case, io, legacy=None):
    keys, ix = key_table(case)
    classes, target = classes_of(case)
    cd = flatten(classes, target)
    values = sorted({vtext(v) for _, v in case["data"]})
    fp = []
    for tn, tid in TYPE_IDS.items():
        tab = (io.get("fpt") or {}).get(tn, {})
        for t in values:
            fp.append([tid, t, tab.get(t)])
    pred = []
    for name, k in PREDS.items():
        for t in values:
            pred.append([k, t, bool(PRED_FN[name](json.loads(t)))])
    # predicates are also applied to stored values (no_output): parsed results and defaults
    extra = set()
    for tab in (io.get("fpt") or {}).values():
        extra.update(x for x in tab.values() if x is not None)
    for c in classes:
        for fd in c["fields"]:
            if fd.get("default") is not None:
                extra.add(vtext(fd["default"]["v"]))
        od = c.get("opts")
        if od and od.get("force_default") is not None:
            extra.add(vtext(od["force_default"]["v"]))
    od = case.get("runtime")
    if od and od.get("force_default") is not None:
        extra.add(vtext(od["force_default"]["v"]))
    for t in sorted(extra - set(values)):
        for name, k in PREDS.items():
            try:
                pred.append([k, t, bool(PRED_FN[name](json.loads(t)))])
            except Exception:
                pass
    line = {
        "lower": [ix[k.lower()] for k in keys], "islower": [k.islower() for k in keys],
        "fp": fp, "pred": pred, "addconv": [[t, x] for t, x in sorted((io.get("addconv") or {}).items())],
        "classes": [model_class(c, ix) for c in classes], "target": target,
        "schema_excluded": [ix[k] for k in SCHEMA_EXCLUDED if k in ix],
        "runtime": model_opts(case.get("runtime")),
        "data": [[ix[k], vtext(v)] for k, v in case["data"]],
        "legacy": legacy or {},
    }
    return line, keys


def unmodel_outcome(mo, keys, case):
    """model outcome (ids) → the adapter's shape (strings)"""

    def err(e):
        i = e.get("i")
        if isinstance(i, list):
            i = sorted(keys[x] for x in i)
        elif i is not None:
            i = keys[i]
        return [e["k"], i]

    if "ok" in mo:
        ok = mo["ok"]
        return {"ok": {"mapping": {keys[k]: v for k, v in ok["mapping"]}, "attrs": {keys[k]: v for k, v in ok["attrs"]},
                       "getattr": {keys[k]: v for k, v in ok["getattr"]}}}
    if "raised" in mo:
        return {"raised": err(mo["raised"])}
    return {"collected": [err(e) for e in mo["collected"]]}


def same_outcome(io, mo):
    if "ok" in io and "ok" in mo:
        a, b = io["ok"], mo["ok"]
        return all(a[k] == b[k] for k in ("mapping", "attrs", "getattr"))
    if "raised" in io and "raised" in mo:
        return io["raised"] == mo["raised"]
    if "collected" in io and "collected" in mo:
        return io["collected"] == mo["collected"]
    return False


# ------------------------------------------------------------------------------------------------
# generator
# ------------------------------------------------------------------------------------------------

LETTERS = ["a", "b", "c", "d"]
MODE_STRS = ["r", "w", "a", "rw", "ra", "wa"]
VALUES = {
    "int": {"good": [1, "1", 2, "2", 7], "bad": ["x", None, "1x"], "falsy": [0, "", None]},
    "str": {"good": ["x", 1, "1", "y"], "bad": [], "falsy": ["", 0, None]},
    "any": {"good": [1, "1", "x", [1]], "bad": [], "falsy": [0, "", None]},
}


def field_ok(fd) -> bool:
    """Field.__init__'s own ConfigErrors (field.py:100-185)"""
    mode = fd.get("mode")
    req = fd.get("required")
    has_default = fd.get("default") is not None
    if fd.get("defer") and not has_default:
        return False
    r = req
    if has_default and not isinstance(r, str):
        r = False
    if r is None:
        r = True
    if r:
        if fd.get("on_error") == "exclude":
            return False
        if isinstance(r, str) and mode and not set(r) <= set(mode):
            return False
    for k in ("no_input", "no_output"):
        v = fd.get(k, False)
        if isinstance(v, str) and mode and not set(v) <= set(mode):
            return False
    return True


def gen_field(rng: random.Random, i: int, n: int, rich: float = 1.0):
    L = LETTERS[i]
    att = rng.choice([L, L, L, L + "b", L.upper() + "f"])
    if rng.random() < 0.07:
        # names whose lower() and casefold() differ (ß -> ss, final sigma -> σ), and the dotless i: lower-casing is what
        # the documentation promises for case-insensitive fields, not case folding
        att = rng.choice([L + "ß", L + "ς", "ı" + L, L.upper() + "ß"])
    for _ in range(50):
        fd = {"attname": att, "type": rng.choice(["int", "int", "str", "any"])}
        p = rng.random
        fd["alias"] = rng.choice([None, None, None, L + "_out", L.upper() + "x", "@" + L]) if p() < rich else None
        pool = [L + "1", L.upper() + "2", "@" + L + "f", L + L.upper()]
        if p() < 0.05:
            pool.append(L + "ßx")
        k = rng.choice([0, 0, 1, 1, 2])
        fd["alias_from"] = rng.sample(pool, k)
        if p() < 0.04 and i > 0:
            fd["alias_from"].append(LETTERS[i - 1] + "1")   # collides with the previous field's pool now and then
        fd["ci"] = rng.choice([None, None, None, True, True, False])
        fd["required"] = rng.choice([None, None, None, True, False, False, "r", "w", "rw", "a"])
        dk = rng.choice(["none", "none", "value", "value", "factory"])
        if dk != "none":
            v = rng.choice([5, "5", 0, "d", [1], 6, [[1]], {"k": [1]},
                            # immutable outside, mutable inside: `rows: tuple = ([], [])`, `({"tags": []}, "v1")`
                            {"__tuple__": [[], [1]]}, {"__tuple__": [{"tags": []}, "v1"]}, [{"__tuple__": [[1]]}]])
            fd["default"] = {"v": v, "factory": dk == "factory"}
        else:
            fd["default"] = None
        fd["defer"] = p() < 0.15
        fd["no_input"] = rng.choice([False] * 6 + [True, "r", "w", "a", "ra", {"pred": "falsy"}])
        fd["no_output"] = rng.choice([False] * 6 + [True, "r", "w", "a", "wa", {"pred": "falsy"}, {"pred": "none"}])
        m = rng.choice([None] * 5 + ["r", "w", "rw", "ra", "wa"] + ([""] if p() < 0.5 else []))
        fd["mode"] = m
        if m == "r" and p() < 0.4:
            fd["mode_kw"] = "readonly"
        elif m == "w" and p() < 0.4:
            fd["mode_kw"] = "writeonly"
        fd["deps"] = []
        fd["on_error"] = rng.choice([None] * 4 + ["exclude", "preserve", "throw"])
        if field_ok(fd):
            return fd
        if fd.get("defer") and fd["default"] is None:
            continue
    return {"attname": att, "type": "int", "alias": None, "alias_from": [], "ci": None, "required": None,
            "default": None, "defer": False, "no_input": False, "no_output": False, "mode": None, "deps": [],
            "on_error": None}


def gen_opts(rng: random.Random, runtime: bool):
    o = {}
    p = rng.random
    if p() < 0.45:
        o["mode"] = rng.choice(["r", "w", "a"])
    if p() < 0.5:
        o["addition"] = rng.choice([True, True, False, None])
    if p() < 0.2:
        o["ignore_required"] = True
    if p() < 0.12:
        o["no_default"] = True
    if p() < 0.12:
        o["defer_default"] = True
    if p() < 0.12 and not o.get("no_default"):
        o["force_default"] = {"v": rng.choice([9, "9", None, 0, 9, "9", [1], {"__tuple__": [[1], "x"]}])}
    if p() < 0.3:
        o["ignore_alias_conflicts"] = True
    if p() < 0.35:
        o["collect_errors"] = True
        if p() < 0.3:
            o["max_errors"] = rng.choice([1, 2])
    elif p() < 0.05:
        o["max_errors"] = 1
    if p() < 0.12:
        o["max_params"] = rng.choice([1, 2, 3])
    if p() < 0.12:
        o["min_params"] = rng.choice([1, 2, 3])
    if p() < 0.25:
        o["invalid_values"] = rng.choice(["exclude", "preserve", "throw"])
    if p() < 0.75:
        o["data_first_search"] = rng.choice([True, True, False, None])
    if not runtime and p() < 0.2:
        o["case_insensitive"] = True
    if not runtime and p() < 0.06:
        o["alias_generator"] = rng.choice(sorted(GENS))
    if not runtime and p() < 0.05:
        o["alias_from_generator"] = rng.choice(sorted(GENS_FROM))
    return o


def case_variants(rng, k):
    vs = {k.upper(), k.capitalize(), k.swapcase(), k.lower()}
    vs.discard(k)
    return sorted(vs)


def gen_data(rng: random.Random, cd, copts):
    data = []
    fields = [derive_field(fd, copts.get("case_insensitive")) for fd in cd["fields"]]
    for fd, f in zip(cd["fields"], fields):
        r = rng.random()
        if r < 0.22:
            continue
        keys = list(dict.fromkeys(f["acc"] + [f["name"], f["attname"]]))
        pick = [rng.choice(keys)]
        if rng.random() < 0.45:
            pick += rng.sample(keys, min(len(keys), rng.choice([1, 2])))
        if rng.random() < 0.4:
            pick += [rng.choice(case_variants(rng, rng.choice(keys)) or keys)]
        vals = VALUES[fd.get("type") if fd.get("type") in VALUES else "any"]
        kind = rng.random()
        if kind < 0.62:
            base = rng.choice(vals["good"])
        elif kind < 0.82 and vals["bad"]:
            base = rng.choice(vals["bad"])
        else:
            base = rng.choice(vals["falsy"])
        for j, k in enumerate(dict.fromkeys(pick)):
            v = base
            if j > 0:
                x = rng.random()
                if x < 0.3:
                    v = rng.choice(vals["good"] + vals["bad"] + vals["falsy"])
                elif x < 0.45 and isinstance(base, int) and not isinstance(base, bool):
                    v = str(base)      # equal after parsing, different before
            data.append([k, copy.deepcopy(v)])
    for _ in range(rng.choice([0, 0, 1, 1, 2])):
        k = rng.choice(["zz", "Q", "extra", "A", "b1", "ZZ", "a"])
        data.append([k, rng.choice([1, "1", "x", None])])
    if rng.random() < 0.12:
        # a name the class keeps for itself, given as an input key
        k = rng.choice(sorted(cd.get("excl") or []) if cd.get("excl") and rng.random() < 0.7 else ["update", "__options__", "_zz"])
        data.append([k, rng.choice([1, "x"])])
    rng.shuffle(data)
    seen, out = set(), []
    for k, v in data:
        if k not in seen and k not in ("_d", "_obj_self"):
            seen.add(k)
            out.append([k, v])
    return out


def add_own_names(rng, cd, pool=("meth", "_q", "cv")):
    """now and then the class body also has a method, a private attribute or a ClassVar (no fields: exclude_vars)"""
    if rng.random() < 0.2:
        cd["methods"] = [pool[0]]
    if rng.random() < 0.12:
        cd["privates"] = [pool[1]]
    if rng.random() < 0.08:
        cd["classvars"] = [pool[2]]


def gen_case(rng: random.Random, maxfields=4):
    n = rng.choice([1, 2, 2, 3, 3, 4][: max(1, (maxfields - 1) * 2)] or [1])
    n = min(n, maxfields)
    fields = [gen_field(rng, i, n) for i in range(n)]
    # dependencies: on another field, by attname, output name or an alias
    for i, fd in enumerate(fields):
        if n > 1 and rng.random() < 0.3:
            j = rng.choice([x for x in range(n) if x != i])
            t = fields[j]
            names = [t["attname"], t.get("alias") or t["attname"]] + list(t["alias_from"])
            fd["deps"] = [rng.choice(names)]
    copts = gen_opts(rng, False)
    if rng.random() < 0.08:
        # strategy chosen by assign_search_strategy: plain fields, data_first_search=None
        for fd in fields:
            if rng.random() < 0.8:
                fd["alias"], fd["alias_from"], fd["ci"] = None, [], None
        copts["data_first_search"] = None
        copts.pop("case_insensitive", None)
    cd = {"fields": fields, "opts": copts}
    if copts.get("addition") is True and rng.random() < 0.5:
        cd["addition_type"] = rng.choice(["int", "str"])
    add_own_names(rng, cd)
    runtime = gen_opts(rng, True) if rng.random() < 0.5 else None
    return {"cls": cd, "runtime": runtime, "data": gen_data(rng, flatten([cd], 0), copts)}


def gen_hier_case(rng: random.Random):
    """a base class, one to three subclasses (own or inherited Options - case_insensitive, mode, addition, ... -, new
    fields, fields replacing inherited ones, dropped names; multi-level and diamond), declared in order; one of the
    classes - often the base, after its subclasses exist - is parsed"""
    n0 = rng.choice([1, 2, 2, 3])
    base_fields = [gen_field(rng, i, n0) for i in range(n0)]
    if rng.random() < 0.5:
        # a capital in a declared key is what a case-folding mistake needs to show
        fd = rng.choice(base_fields)
        if fd["ci"] is True:
            fd["ci"] = None
    bopts = gen_opts(rng, False)
    classes = [{"fields": base_fields, "opts": bopts}]
    add_own_names(rng, classes[0])
    if bopts.get("addition") is True and rng.random() < 0.4:
        classes[0]["addition_type"] = rng.choice(["int", "str"])
    used = n0
    nsub = rng.choice([1, 2, 2, 3, 3])
    for j in range(1, nsub + 1):
        if j == 1:
            bases = [0]
        elif j == 2:
            bases = [1] if rng.random() < 0.7 else [0]
        else:
            bases = [1, 2] if classes[2]["bases"] == [0] and rng.random() < 0.6 else ([2] if rng.random() < 0.7 else [1])
        cd = {"bases": bases, "fields": []}
        if rng.random() < 0.65:
            o = gen_opts(rng, False)
            parent = eff_opts(classes, bases[0])[0] or {}
            if rng.random() < 0.6:
                # differ from the parent in case sensitivity
                if parent.get("case_insensitive"):
                    o.pop("case_insensitive", None)
                else:
                    o["case_insensitive"] = True
            cd["opts"] = o
            if o.get("addition") is True and rng.random() < 0.3:
                cd["addition_type"] = rng.choice(["int", "str"])
        else:
            cd["opts"] = None
        inherited = flatten(classes + [dict(cd, fields=[])], len(classes))["fields"]
        if used < 4 and rng.random() < 0.7:
            cd["fields"].append(gen_field(rng, used, 4))
            used += 1
        if inherited and rng.random() < (0.4 if j == 1 else 0.55):
            old = rng.choice(inherited)
            far = [f for f in inherited if any(f["attname"] == g["attname"] for g in classes[0]["fields"])]
            if j > 1 and far and rng.random() < 0.7:
                old = rng.choice(far)       # declared two or more levels up
            new = gen_field(rng, 0, 4)
            new["attname"], new["alias"], new["type"] = old["attname"], old.get("alias"), old.get("type", "any")
            if rng.random() < 0.7:
                new["ci"] = old.get("ci")
            new["alias_from"] = list(old.get("alias_from") or []) if rng.random() < 0.6 else []
            if rng.random() < 0.55:
                # no annotation in the subclass body: the inherited one (from whatever level) stays in force
                new["type"] = None
                if rng.random() < 0.45:
                    # just a new default (`limit = 20`)
                    new = {"attname": old["attname"], "type": None, "bare": True, "alias": None, "alias_from": [],
                           "ci": None, "required": None, "default": {"v": rng.choice([5, "5", 0, 7]), "factory": False},
                           "defer": False, "no_input": False, "no_output": False, "mode": None, "deps": [],
                           "on_error": None}
            if field_ok(new) and all(f["attname"] != new["attname"] for f in cd["fields"]):
                cd["fields"].append(new)
        if inherited and rng.random() < 0.12:
            old = rng.choice(inherited)
            # `name = ...` drops the field only when the name is its key in parser.fields
            if fkey(old) == old["attname"] and all(f["attname"] != old["attname"] for f in cd["fields"]):
                cd["drops"] = [old["attname"]]
        # dependencies inside the subclass: on any field it has
        allf = inherited + cd["fields"]
        for fd in cd["fields"]:
            if len(allf) > 1 and rng.random() < 0.25 and not fd.get("bare"):
                t = rng.choice([f for f in allf if f["attname"] != fd["attname"]] or allf)
                fd["deps"] = [rng.choice([t["attname"], t.get("alias") or t["attname"]] + list(t.get("alias_from") or []))]
        add_own_names(rng, cd, (f"meth{j}", f"_q{j}", f"cv{j}"))
        classes.append(cd)
    for i, fd in enumerate(base_fields):
        if n0 > 1 and rng.random() < 0.25:
            t = base_fields[rng.choice([x for x in range(n0) if x != i])]
            fd["deps"] = [rng.choice([t["attname"], t.get("alias") or t["attname"]] + list(t["alias_from"]))]
    target = 0 if rng.random() < 0.45 else rng.randrange(len(classes))
    if n0 > 1 and rng.random() < 0.12:
        # a subclass under which a dependency of the BASE resolves to another field: the name the base field depends on
        # is dropped and becomes an accepted key of a new field, or is re-declared under another output name (which the
        # code refuses - after it has been through the fields taken over).  The base must stay what it was.
        i = rng.randrange(n0)
        t = base_fields[rng.choice([x for x in range(n0) if x != i])]
        base_fields[i]["deps"] = [t["attname"]]
        sub = classes[1]
        sub["fields"] = [f for f in sub["fields"] if f["attname"] != t["attname"]]
        if fkey(dict(t, ci=t.get("ci") if t.get("ci") is not None else bool((bopts or {}).get("case_insensitive")))) == t["attname"] \
                and rng.random() < 0.6:
            sub["drops"] = [t["attname"]]
            new = gen_field(rng, 3, 4)
            new["attname"], new["alias"], new["alias_from"], new["deps"] = "q", None, [t["attname"]], []
            if field_ok(new):
                sub["fields"].append(new)
        else:
            new = dict(t, alias=rng.choice(["A", "zz", "Q"]), deps=[])
            sub.pop("drops", None)
            sub["fields"].append(new)
        if rng.random() < 0.75:
            target = 0
    if len(classes) > 1 and rng.random() < 0.15:
        # a subclass that re-declares an ALIASED inherited field without its old alias_from, or drops it (`f = ...`): what
        # the bases' alias tables said about that field must not survive in the subclass.  The subclass is parsed, and the
        # input (below) uses the old alias as a key.
        t = rng.choice(base_fields)
        if not t.get("alias_from"):
            t["alias_from"] = [t["attname"] + "_old"]
        sub = classes[1]
        sub["fields"] = [f for f in sub["fields"] if f["attname"] != t["attname"]]
        t_ci = t.get("ci") if t.get("ci") is not None else bool((bopts or {}).get("case_insensitive"))
        t_key = fkey(dict(desugar(classes[:1])[0]["fields"][base_fields.index(t)], ci=t_ci))   # alias generators written out
        if t_key == t["attname"] and rng.random() < 0.4:
            sub["drops"] = [t["attname"]]
        else:
            sub.pop("drops", None) if (sub.get("drops") or []) == [t["attname"]] else None
            new = dict(t, alias_from=[], deps=[])
            if rng.random() < 0.5:
                new["default"] = {"v": rng.choice([5, "5", 0]), "factory": False}
                new["required"] = None
            if field_ok(new):
                sub["fields"].append(new)
        if rng.random() < 0.5 and (sub.get("opts") is not None):
            sub["opts"]["data_first_search"] = rng.choice([True, None])
        target = rng.choice([1, 1, len(classes) - 1]) if all(
            1 in (c.get("bases") or []) or i <= 1 for i, c in enumerate(classes)) else 1
    cdt = flatten(classes, target)
    runtime = gen_opts(rng, True) if rng.random() < 0.4 else None
    data = gen_data(rng, cdt, cdt["opts"] or {})
    # keys an ANCESTOR accepted for a field that this class re-declares differently or no longer has
    accepted = set()
    for fd in cdt["fields"]:
        f = derive_field(fd, (cdt["opts"] or {}).get("case_insensitive"))
        accepted.update(f["acc"] + [f["name"], f["attname"]])
    stale = []
    for c in desugar(classes):
        for fd in c["fields"]:
            for k in [fd["attname"], fd.get("alias")] + list(fd.get("alias_from") or []):
                if k and k not in accepted and k.lower() not in accepted and k not in stale:
                    stale.append(k)
    given = {k for k, _ in data}
    for k in stale:
        if k not in given and rng.random() < 0.5:
            data.insert(rng.randrange(len(data) + 1), [k, rng.choice([1, "1", "x"])])
    return {"classes": classes, "target": target, "runtime": runtime, "data": data}


def gen_func_case(rng: random.Random):
    """the same declaration as a function: keyword-only parameters, or (half of them) with leading positional-only /
    positional-or-keyword parameters, `**kw`, positional arguments, and keywords spelled like the positional ones"""
    c = gen_case(rng)
    for fd in c["cls"]["fields"]:
        fd["defer"] = False
        fd["attname"] = fd["attname"]
        if fd["default"] is None and (fd["required"] is False or fd["no_input"] is not False or fd["mode"]
                                      or isinstance(fd["required"], str)):
            fd["default"] = {"v": rng.choice([5, "5", 0]), "factory": False}
    o = dict(c["runtime"] if c["runtime"] is not None else c["cls"]["opts"])
    for k in ("no_default", "defer_default"):
        o.pop(k, None)
    c["cls"]["kwargs"] = o.get("addition") is True or rng.random() < 0.2
    if not c["cls"]["kwargs"] and o.get("addition") is True:
        o.pop("addition")
    c["cls"]["opts"] = o
    c["runtime"] = None
    c["kind"] = "func"
    c["data"] = gen_data(rng, c["cls"], o)
    if rng.random() < 0.5:
        fields = c["cls"]["fields"]
        n = len(fields)
        # positional parameters: plain ones first (required before defaulted, as FunctionParser demands)
        npos = rng.randint(1, n)
        for fd in fields[:npos]:
            if rng.random() < 0.7:
                fd.update(alias=None, no_input=False, mode=None, required=None, deps=[])
                if rng.random() < 0.6:
                    fd["default"] = None
        fields[:npos] = sorted(fields[:npos], key=lambda fd: fd["default"] is not None)
        po = rng.randint(0, npos)
        c["cls"]["posonly"], c["cls"]["poskw"] = po, npos - po
        if rng.random() < 0.7:
            c["cls"]["kwargs"] = True
            if rng.random() < 0.5:
                o["addition"] = True
        nargs = rng.randint(0, npos)
        vals = lambda fd: VALUES[fd.get("type") if fd.get("type") in VALUES else "any"]
        c["args"] = [copy.deepcopy(rng.choice(vals(fd)["good"] + vals(fd)["good"] + vals(fd)["bad"])) for fd in fields[:nargs]]
        data = [kv for kv in c["data"]]
        given = {k for k, _ in data}
        for i, fd in enumerate(fields[:npos]):
            # a keyword spelled like a positional parameter: an ordinary **kw entry for a positional-only one, a
            # duplicate ("multiple values") for one already bound by position
            if rng.random() < (0.45 if i < nargs else 0.15):
                k = rng.choice([fd["attname"]] + list(fd.get("alias_from") or []) + [fd["attname"].upper()])
                if k not in given:
                    given.add(k)
                    data.append([k, rng.choice([1, "1", "x"])])
            elif i < nargs:
                # bound by position: drop its keywords, or most calls would be duplicates
                f = derive_field(fd, o.get("case_insensitive"))
                data = [kv for kv in data if (kv[0].lower() if f["ci"] else kv[0]) not in f["acc"] or rng.random() < 0.15]
        c["data"] = data
    return c


def grid_cases(limit=None):
    """thorough: every combination of a reduced parameter grid for 2-field declarations"""
    out = []
    f1s = []
    for alias, ci, req, default, ni, no, mode in itertools.product(
            [None, "Ax"], [None, True], [None, False, "w"], [None, {"v": 5, "factory": False}],
            [False, True, "w", {"pred": "falsy"}], [False, "w"], [None, "rw"]):
        fd = {"attname": "a", "type": "int", "alias": alias, "alias_from": ["a1"], "ci": ci, "required": req,
              "default": default, "defer": False, "no_input": ni, "no_output": no, "mode": mode, "deps": [],
              "on_error": None}
        if field_ok(fd):
            f1s.append(fd)
    f2 = {"attname": "b", "type": "int", "alias": None, "alias_from": [], "ci": None, "required": False,
          "default": None, "defer": False, "no_input": False, "no_output": False, "mode": None, "deps": ["a"],
          "on_error": None}
    datas = [[], [["a", 1]], [["a1", "1"], ["b", 2]], [["A", 1], ["a", 2]], [["a", 0], ["a1", 0], ["b", 1]],
             [["Ax", "x"], ["zz", 1]], [["a1", 1], ["a", "1"], ["b", 1]], [["AX", 1], ["ax", 1]],
             [["b", 1]], [["A1", 2], ["a1", 2], ["zz", "x"]], [["a", "x"], ["b", "x"]], [["Ax", 0], ["a", 1], ["b", 3]]]
    optss = [{}, {"mode": "w"}, {"mode": "r", "ignore_required": True}, {"ignore_alias_conflicts": True},
             {"collect_errors": True, "addition": False}, {"force_default": {"v": 9}}, {"addition": True, "mode": "w"},
             {"invalid_values": "exclude", "collect_errors": True}, {"no_default": True, "mode": "a"},
             {"defer_default": True, "invalid_values": "preserve", "max_params": 2}]
    for f1 in f1s:
        for d in datas:
            for o in optss:
                for dfs in (True, False):
                    oo = dict(o, data_first_search=dfs)
                    out.append({"cls": {"fields": [copy.deepcopy(f1), copy.deepcopy(f2)], "opts": oo},
                                "runtime": None, "data": copy.deepcopy(d)})
                    if limit and len(out) >= limit:
                        return out
    return out


# ------------------------------------------------------------------------------------------------
# the check
# ------------------------------------------------------------------------------------------------

class C05(Check):
    prop = "C05"
    props_modules = ["Utv.Props.C05"]
    driver = "C05"
    impl = "harness.c05:impl"
    case_timeout = 20.0
    rule = ("35% of the cases are class hierarchies (a base and 1-3 subclasses with own or inherited Options, new / replacing / "
            "dropped fields, multi-level and diamond; all declared in order, then one of them - 45% the base - is parsed); the "
            "rest single classes: seeded declarations of 1-4 fields drawn from the Field parameter product (alias, alias_from<=2, case_insensitive, "
            "required incl. mode strings, default/default_factory/defer_default, no_input/no_output as bool, mode string or "
            "predicate, mode/readonly/writeonly, dependencies by attname/alias, on_error) x class and runtime Options x inputs "
            "over accepted names, aliases, letter-case variants, duplicates with equal/different/equal-after-parse values and "
            "extra keys; thorough adds the full product of a reduced 2-field grid.  non-trivial = the input uses an alias or "
            "case variant, gives a field twice, leaves a field out, hits a no_input/no_output/mode rule, has an unknown key or "
            "active dependencies, or fails; distinct by the whole case")
    assumptions = [
        "Python == on input values is modelled as structural equality (the generator uses ints, strs, None and small lists)",
        "leaf type conversion, user predicates and str.lower are abstract in the theorems; the correspondence run instantiates "
        "them with tables measured on the real converters in isolation",
        "property fields (@property), Final, discriminator and function parameters are outside the modelled fragment; a field inherited from a base class is case-insensitive or not as its declaring class says",
    ]
    budget = {"quick": 6000, "thorough": 120000}
    search_budget = {"quick": 4000, "thorough": 20000}
    legacy = None

    # -- generation
    def cases(self, tier, rng, n):
        out = []
        if tier == "thorough":
            out += grid_cases()
        out += [gen_hier_case(rng) if rng.random() < 0.35 else gen_case(rng) for _ in range(n)]
        return out

    # -- evaluation: the model line needs the measured leaf tables, so the implementation runs first
    def evaluate(self, cases):
        from .common import run_driver, run_impl
        impl_outs = run_impl(self.impl, cases, self.case_timeout, extra_env=self.impl_env)
        lines, idx = [], []
        self._keys = {}
        for i, (c, io) in enumerate(zip(cases, impl_outs)):
            if isinstance(io, dict) and "out" in io and not io.get("func"):
                line, keys = model_line(c, io, self.legacy)
                lines.append(line)
                idx.append((i, keys))
        outs = run_driver(self.driver, lines)
        model_outs = [None] * len(cases)
        for (i, keys), mo in zip(idx, outs):
            if isinstance(mo, dict) and "model" in mo:
                mo = dict(mo, _keys=keys)
            model_outs[i] = mo
        return impl_outs, model_outs

    which = ("out", "model")     # C06 compares "df"/"ff" as well

    def compare(self, case, io, mo):
        if not isinstance(io, dict) or "out" not in io:
            return f"impl: {io}"
        if io.get("func"):
            return None          # functions are outside the modelled fragment (oracle only)
        if not isinstance(mo, dict) or "model" not in mo:
            return f"driver: {mo}"
        classes, target = classes_of(case)
        chain, todo = set(), [target]
        while todo:
            i = todo.pop()
            if i not in chain:
                chain.add(i)
                todo += list(classes[i].get("bases") or [])
        wf = all(mo["wf_all"][i] for i in chain)
        if "config_error" in io["out"]:
            return f"model accepts a declaration the code rejects ({io['out']['config_error']})" if wf else None
        if not wf:
            # the theorems' hypothesis `Parser.wf` is meant to be exactly "ClassParser.setup raises no ConfigError"
            return "the code accepts a declaration the model's well-formedness rejects"
        keys = mo["_keys"]
        # which type each field of the class ended up with (an annotation is inherited through every level)
        tn = {v: k for k, v in TYPE_IDS.items()}
        want_t = {keys[f["attname"]]: (tn[f["ty"]] if f["ty"] is not None else "none") for f in mo["fields"]}
        # (an `Any` annotation is kept as the bare Rule class, which converts nothing - like no annotation at all)
        norm = lambda d: {k: ("none" if v in ("any", "Rule") else v) for k, v in d.items()}
        if norm(want_t) != norm(io.get("types") or {}):
            return f"field types: implementation {io.get('types')} vs model {want_t}"
        want_x = sorted({keys[i] for i in mo.get("exclude_vars", [])})
        got_x = sorted(k for k in (io.get("exclude_vars") or []) if k in set(keys))
        if want_x != got_x:
            return f"exclude_vars (on the keys of the case): implementation {got_x} vs model {want_x}"
        for k in keys:           # the theorems' hypothesis LowerLaws, on the keys of this case
            if k.lower().lower() != k.lower() or (k.islower() and k.lower() != k):
                return f"LowerLaws does not hold for key {k!r}"
        for a, b in (("out", "model"), ("df", "df"), ("ff", "ff")):
            m = unmodel_outcome(mo[b], keys, case)
            if not same_outcome(io[a], m):
                return f"{a}: implementation {io[a]} vs model {m}"
        return None

    def want(self, case, io):
        return contract(case, io.get("fpt") or {}, io.get("addconv") or {})

    def spec(self, case, io, mo):
        if not isinstance(io, dict) or "out" not in io:
            return f"no outcome: {io}"
        if "config_error" in io["out"] or io.get("func"):
            return None
        want = self.want(case, io)
        # the Python oracle and the Lean spec must be the same function
        if isinstance(mo, dict) and "spec" in mo and mo.get("wf"):
            keys = mo["_keys"]
            sp = mo["spec"]
            lean_errs = set()
            for e in sp["errs"]:
                i = e.get("i")
                i = tuple(sorted(keys[x] for x in i)) if isinstance(i, list) else (keys[i] if i is not None else None)
                lean_errs.add((e["k"], i))
            py_errs = set((k, tuple(i) if isinstance(i, (list, tuple)) else i) for k, i in want["errs"])
            if lean_errs != py_errs:
                return f"HARNESS: python oracle errs {sorted(py_errs, key=str)} != lean spec errs {sorted(lean_errs, key=str)}"
            if not py_errs:
                lm = {keys[k]: v for k, v in sp["mapping"]}
                la = {keys[k]: v for k, v in sp["attrs"]}
                if lm != want["mapping"] or la != want["attrs"]:
                    return f"HARNESS: python oracle views {want['mapping']}/{want['attrs']} != lean spec views {lm}/{la}"
        for k, what in (("out", "as declared"), ("df", "data_first_search=True"), ("ff", "data_first_search=False")):
            why = judge(io[k], want, what)
            if why:
                return why
        return None

    def classify(self, case, io, why):
        return None

    def key(self, case, io):
        if not isinstance(io, dict) or "out" not in io or "config_error" in io["out"]:
            return None
        return json.dumps(case, sort_keys=True) if self.features(case, io) else None

    def features(self, case, io):
        cd = case["cls"] if case.get("kind") == "func" else flat(case)
        copts = norm_opts(cd.get("opts"))
        fs = [derive_field(fd, copts["case_insensitive"]) for fd in cd["fields"]]
        feats = set()
        if len(classes_of(case)[0]) > 1 and case.get("kind") != "func":
            feats.add("hierarchy")
        out = io["out"]
        if "ok" not in out:
            feats.add("fails")
        seen = {}
        for k, _ in case["data"]:
            hit = None
            for f in fs:
                nk = k.lower() if f["ci"] else k
                if nk in f["acc"]:
                    hit = f
                    if k != f["name"]:
                        feats.add("alias-or-case")
            if hit is None:
                feats.add("extra-key")
            else:
                seen[hit["attname"]] = seen.get(hit["attname"], 0) + 1
        if any(v > 1 for v in seen.values()):
            feats.add("duplicate")
        for f in fs:
            if f["attname"] not in seen:
                feats.add("absent")
            if f["no_input"] is not False or f["no_output"] is not False or f["mode"]:
                feats.add("io-flags")
            if f["deps"] and f["attname"] in seen:
                feats.add("deps")
        return feats

    def distribution(self, case, io):
        if not isinstance(io, dict) or "out" not in io:
            return "adapter-failure"
        out = io["out"]
        if "config_error" in out:
            return "config-error"
        kind = "ok" if "ok" in out else ("raised:" + out["raised"][0] if "raised" in out else
                                         ("collected" if "collected" in out else "escape"))
        if io.get("func"):
            kind = "func:" + kind
        feats = ",".join(sorted(self.features(case, io) - {"fails"})) or "plain"
        return f"{kind}|{feats}"

    def neighbours(self, case, rng):
        out = []
        data = case["data"]
        for i in range(len(data)):
            out.append(dict(case, data=data[:i] + data[i + 1:]))
            for v in (1, "1", "x", 0, None):
                out.append(dict(case, data=data[:i] + [[data[i][0], v]] + data[i + 1:]))
        if len(data) > 1:
            out.append(dict(case, data=list(reversed(data))))
        base = case.get("runtime") if case.get("runtime") is not None else (flat(case).get("opts") or {})
        for k, vals in (("mode", [None, "r", "w", "a"]), ("ignore_required", [True, False]),
                        ("ignore_alias_conflicts", [True, False]), ("collect_errors", [True, False]),
                        ("addition", [None, True, False]), ("data_first_search", [True, False, None]),
                        ("no_default", [True, False]), ("defer_default", [True, False])):
            for v in vals:
                o = dict(base)
                o[k] = v
                if o.get("no_default") and o.get("force_default") is not None:
                    continue
                out.append(dict(case, runtime=o))
        return out

    def finish_evidence(self, ev, tier):
        ev["coverage"]["exhaustive"] = False
        if tier == "thorough":
            ev["coverage"]["exhaustive_part"] = ("full product of a reduced grid: field a (alias x case_insensitive x required x "
                                                 "default x no_input x no_output x mode) + dependent field b, 12 inputs, 10 option sets, "
                                                 "both strategies")


CHECK = C05()
